/-
C12 — Element-level operators reproduce affine fields exactly and agree with assembly.
Property theorems ONLY (helper lemmas: `Lemmas/Assembly*.lean`).

Model: `Core/Assembly.lean` — `Strain` is modelled AS CODED, including the `*= 2` on the shear rows
when `voigt = True` although `get_B` already yields the engineering shear.  Consequently the property's
"Strain returns the symmetric gradient (engineering shear in Voigt form)" is FALSE of the code for sheared
fields (open finding `strain-voigt-shear-doubled`): `strain_shear_as_coded_*` states what the code returns,
`strain_shear_counterexample` is the concrete refutation, and the energy identity is proved only for
fields without engineering shear (`energy_identity_partial_*`).

Dimensions: every statement is given for 2-D (`d.nelz = 0`, suffix `_2d`) and 3-D (`d.nelz ≠ 0`, `_3d`),
for all grids, element sizes (≠ 0), Gauss factors `g` (no hypothesis on `g` is needed) and materials.
Notions used in the statements (lemma files): `affineNodal2/3 d s G t` — nodal vector of `u(X) = G X + t`
at `get_node_position`; `engStrain2/3 G` — symmetric gradient with engineering shear in the `get_B`
order (`[xx,yy,xy]`, `[xx,yy,zz,yz,zx,xy]`); `Bv m B v = B·v`; `elemOpApply` / `nodalOpApply` — the
einsum-gather / scatter-add of `ElementOperation` / `NodalOperation`.
-/
import PymotoVerif.Lemmas.AssemblyOps
import Mathlib.Data.Rat.Init

namespace PymotoVerif.C12
open PymotoVerif PymotoVerif.Domain PymotoVerif.Assembly PymotoVerif.C13 Finset Dom

section strain
set_option linter.unusedSectionVars false
variable {α : Type} [Field α] [CharZero α]

/-! ## `B(p) u_e` is the engineering strain of `G` at every point -/

/-- **B_affine (2-D)**: in every element `e` of every grid, at EVERY evaluation point `(px, py)`,
    `get_B(dN(p)) · u_e` is the engineering strain of `G` for the nodal values of `u(X) = G X + t` -/
theorem B_affine_2d (d : Dom) (hz : d.nelz = 0) (sx sy px py : α) (hx : sx ≠ 0) (hy : sy ≠ 0)
    (G : Nat → Nat → α) (t : Nat → α) {e : Nat} (he : e < d.nel) (i : Nat) (hi : i < 3) :
    Bv 8 (getB2 (shapeDer2 sx sy px py)) (fun a => affineNodal2 d sx sy G t (d.dofConn 2 e a)) i
      = engStrain2 G i :=
  mesh_strain2 d hz sx sy px py hx hy G t he i hi

/-- **B_affine (3-D)**, Voigt order of `get_B(dN, voigt=True)` -/
theorem B_affine_3d (d : Dom) (hz : d.nelz ≠ 0) (sx sy sz px py pz : α) (hx : sx ≠ 0) (hy : sy ≠ 0) (hsz : sz ≠ 0)
    (G : Nat → Nat → α) (t : Nat → α) {e : Nat} (he : e < d.nel) (i : Nat) (hi : i < 6) :
    Bv 24 (getB3 true (shapeDer3 sx sy sz px py pz)) (fun a => affineNodal3 d sx sy sz G t (d.dofConn 3 e a)) i
      = engStrain3 G i :=
  mesh_strain3 d hz sx sy sz px py pz hx hy hsz G t he i hi

/-! ## `Strain` -/
variable [DecidableEq α]

/-- normal components of `Strain` are the diagonal of `G` (2-D, both `voigt` settings) -/
theorem strain_normal_components_2d (d : Dom) (hz : d.nelz = 0) (voigt : Bool) (sx sy g : α) (hsx : sx ≠ 0) (hsy : sy ≠ 0)
    (G : Nat → Nat → α) (t : Nat → α) {e : Nat} (he : e < d.nel) (i : Nat) (hi : i < 2) :
    elemOpApply (d.dofConn 2) 8 (strainElem2 voigt sx sy g) (affineNodal2 d sx sy G t) i e = G i i := by
  rw [strainOut2 d hz voigt sx sy g hsx hsy G t he i (by omega)]
  unfold engStrain2
  interval_cases i <;> simp

/-- normal components of `Strain` (3-D) -/
theorem strain_normal_components_3d (d : Dom) (hz : d.nelz ≠ 0) (voigt : Bool) (sx sy sz g : α)
    (hsx : sx ≠ 0) (hsy : sy ≠ 0) (hsz : sz ≠ 0)
    (G : Nat → Nat → α) (t : Nat → α) {e : Nat} (he : e < d.nel) (i : Nat) (hi : i < 3) :
    elemOpApply (d.dofConn 3) 24 (strainElem3 voigt sx sy sz g) (affineNodal3 d sx sy sz G t) i e = G i i := by
  rw [strainOut3 d hz voigt sx sy sz g hsx hsy hsz G t he i (by omega)]
  unfold engStrain3
  interval_cases i <;> simp

/-- **shear component AS CODED (2-D)**: `2 × (G₀₁ + G₁₀)` when `voigt = True`, the engineering shear
    `G₀₁ + G₁₀` when `voigt = False` -/
theorem strain_shear_as_coded_2d (d : Dom) (hz : d.nelz = 0) (voigt : Bool) (sx sy g : α) (hsx : sx ≠ 0) (hsy : sy ≠ 0)
    (G : Nat → Nat → α) (t : Nat → α) {e : Nat} (he : e < d.nel) :
    elemOpApply (d.dofConn 2) 8 (strainElem2 voigt sx sy g) (affineNodal2 d sx sy G t) 2 e
      = if voigt = true then 2 * (G 0 1 + G 1 0) else G 0 1 + G 1 0 := by
  rw [strainOut2 d hz voigt sx sy g hsx hsy G t he 2 (by norm_num)]
  unfold engStrain2
  cases voigt <;> simp; ring

/-- **shear components AS CODED (3-D)**, rows `3, 4, 5` = `yz, zx, xy` -/
theorem strain_shear_as_coded_3d (d : Dom) (hz : d.nelz ≠ 0) (voigt : Bool) (sx sy sz g : α)
    (hsx : sx ≠ 0) (hsy : sy ≠ 0) (hsz : sz ≠ 0)
    (G : Nat → Nat → α) (t : Nat → α) {e : Nat} (he : e < d.nel) (i : Nat) (h3 : 3 ≤ i) (hi : i < 6) :
    elemOpApply (d.dofConn 3) 24 (strainElem3 voigt sx sy sz g) (affineNodal3 d sx sy sz G t) i e
      = if voigt = true then 2 * engStrain3 G i else engStrain3 G i := by
  rw [strainOut3 d hz voigt sx sy sz g hsx hsy hsz G t he i hi]
  cases voigt <;> simp [h3]; ring
end strain

/-- **counterexample to the property as stated**: one unit element, `G = !![0,1;0,0]` (simple shear
    `u = (y, 0)`): `Strain(voigt=True)` returns `γ_xy = 2` while the symmetric gradient has engineering
    shear `1`. (`g` irrelevant; evaluated over ℚ.) -/
theorem strain_shear_counterexample :
    elemOpApply ((⟨1, 1, 0⟩ : Dom).dofConn 2) 8 (strainElem2 true (1 : Rat) 1 0)
        (affineNodal2 ⟨1, 1, 0⟩ 1 1 (fun a b => if a = 0 ∧ b = 1 then 1 else 0) (fun _ => 0)) 2 0 = 2
    ∧ engStrain2 (fun a b => if a = 0 ∧ b = 1 then (1 : Rat) else 0) 2 = 1 := by
  constructor
  · rw [strain_shear_as_coded_2d ⟨1, 1, 0⟩ rfl true 1 1 0 (by norm_num) (by norm_num) _ _ (by decide)]
    norm_num
  · norm_num [engStrain2]


/-! ## `Stress = D · Strain` -/
section stress
variable {α : Type} [Field α] [DecidableEq α]

/-- **Stress is the constitutive matrix times the module's own (`voigt=True`) strain output**, for EVERY
    nodal vector `u` (2-D; `D` is `get_D(...)` times the thickness as coded, any matrix works) -/
theorem stress_eq_D_strain_2d (dc : Nat → Nat → Nat) (sx sy g : α) (D : Nat → Nat → α) (u : Nat → α) (i e : Nat) :
    elemOpApply dc 8 (stressElem2 sx sy g D) u i e
      = ∑ j ∈ range 3, D i j * elemOpApply dc 8 (strainElem2 true sx sy g) u j e := by
  simp only [elemOpApply_eq]
  exact Bv_matMul 3 8 D _ _ i

/-- the same in 3-D -/
theorem stress_eq_D_strain_3d (dc : Nat → Nat → Nat) (sx sy sz g : α) (D : Nat → Nat → α) (u : Nat → α) (i e : Nat) :
    elemOpApply dc 24 (stressElem3 sx sy sz g D) u i e
      = ∑ j ∈ range 6, D i j * elemOpApply dc 24 (strainElem3 true sx sy sz g) u j e := by
  simp only [elemOpApply_eq]
  exact Bv_matMul 6 24 D _ _ i
end stress

section energy
set_option linter.unusedSectionVars false
variable {α : Type} [Field α] [CharZero α] [DecidableEq α]

/-- for an affine field WITHOUT engineering shear, `Stress` is `D` times the true strain of `G` (2-D) -/
theorem stress_affine_noshear_2d (d : Dom) (hz : d.nelz = 0) (sx sy g : α) (hsx : sx ≠ 0) (hsy : sy ≠ 0)
    (D : Nat → Nat → α) (G : Nat → Nat → α) (t : Nat → α) (hG : G 0 1 + G 1 0 = 0) {e : Nat} (he : e < d.nel) (i : Nat) :
    elemOpApply (d.dofConn 2) 8 (stressElem2 sx sy g D) (affineNodal2 d sx sy G t) i e
      = ∑ j ∈ range 3, D i j * engStrain2 G j := by
  rw [stress_eq_D_strain_2d]
  apply Finset.sum_congr rfl; intro j hj
  have hj' := Finset.mem_range.mp hj
  rw [strainOut2 d hz true sx sy g hsx hsy G t he j hj']
  split
  · rename_i h
    rw [h.2]; simp [engStrain2, hG]
  · rfl

/- full statement of the property (FALSE of the code as written, see `strain_shear_counterexample`):
   for EVERY affine field  Σ_e x_e V_e σ_e·ε_e = uᵀ K u.  Proved below for fields with zero engineering
   shear; what is missing is exactly the class of the open finding `strain-voigt-shear-doubled`. -/
/-- **energy identity (2-D), affine fields with zero engineering shear**:
    `Σ_e x_e (sx·sy) σ_e·ε_e = uᵀ K u` with `σ`, `ε` the outputs of `Stress` / `Strain(voigt=True)` and `K`
    the assembled stiffness matrix for the same `D` (which contains the thickness, as coded) -/
theorem energy_identity_partial_2d (d : Dom) (hz : d.nelz = 0) (sx sy g : α) (hsx : sx ≠ 0) (hsy : sy ≠ 0)
    (D : Nat → Nat → α) (x : Nat → α) (bcd : α) (G : Nat → Nat → α) (t : Nat → α) (hG : G 0 1 + G 1 0 = 0) :
    ∑ e ∈ range d.nel, x e * ((sx * sy) * ∑ i ∈ range 3,
        elemOpApply (d.dofConn 2) 8 (stressElem2 sx sy g D) (affineNodal2 d sx sy G t) i e
          * elemOpApply (d.dofConn 2) 8 (strainElem2 true sx sy g) (affineNodal2 d sx sy G t) i e)
      = ∑ r ∈ range (2 * d.nnodes), ∑ c ∈ range (2 * d.nnodes),
          affineNodal2 d sx sy G t r * assembleDom d 2 (stiffElem2 sx sy g D) x none bcd none r c
            * affineNodal2 d sx sy G t c := by
  unfold assembleDom stiffElem2
  rw [assemble_stiff_energy d.nel (d.elemnodes * 2) (2 * d.nnodes) 4 3 (d.dofConn 2)
    (fun e b he hb => dofConn_lt d 2 he hb)]
  apply Finset.sum_congr rfl; intro e he
  have he' := Finset.mem_range.mp he
  congr 1
  rw [elemnodes_2d d hz]
  have hq : ∀ gp ∈ range 4, w2 sx sy * quadForm 3 D (Bv 8 (Bg2 sx sy g gp)
        (fun a => affineNodal2 d sx sy G t (d.dofConn 2 e a)))
      = w2 sx sy * quadForm 3 D (engStrain2 G) := by
    intro gp _
    congr 1
    unfold quadForm
    apply Finset.sum_congr rfl; intro i hi
    apply Finset.sum_congr rfl; intro j hj
    rw [show Bg2 sx sy g gp = getB2 (shapeDer2 sx sy (gpos sx g gp 0) (gpos sy g gp 1)) from rfl,
      mesh_strain2 d hz sx sy _ _ hsx hsy G t he' i (Finset.mem_range.mp hi),
      mesh_strain2 d hz sx sy _ _ hsx hsy G t he' j (Finset.mem_range.mp hj)]
  rw [Finset.sum_congr rfl hq]
  have hs : ∀ i ∈ range 3,
      elemOpApply (d.dofConn 2) 8 (stressElem2 sx sy g D) (affineNodal2 d sx sy G t) i e
        * elemOpApply (d.dofConn 2) 8 (strainElem2 true sx sy g) (affineNodal2 d sx sy G t) i e
      = ∑ j ∈ range 3, engStrain2 G i * D i j * engStrain2 G j := by
    intro i hi
    rw [stress_affine_noshear_2d d hz sx sy g hsx hsy D G t hG he' i,
      strainOut2 d hz true sx sy g hsx hsy G t he' i (Finset.mem_range.mp hi)]
    have : (if true = true ∧ i = 2 then engStrain2 G i * 2 else engStrain2 G i) = engStrain2 G i := by
      split
      · rename_i h; rw [h.2]; simp [engStrain2, hG]
      · rfl
    rw [this, Finset.sum_mul]
    apply Finset.sum_congr rfl; intro j _; ring
  rw [Finset.sum_congr rfl hs]
  simp only [Finset.sum_const, Finset.card_range, nsmul_eq_mul]
  unfold quadForm w2
  push_cast
  ring

/-- 3-D: `Stress` of an affine field whose three engineering shears vanish -/
theorem stress_affine_noshear_3d (d : Dom) (hz : d.nelz ≠ 0) (sx sy sz g : α) (hsx : sx ≠ 0) (hsy : sy ≠ 0) (hsz : sz ≠ 0)
    (D : Nat → Nat → α) (G : Nat → Nat → α) (t : Nat → α) (hG : ∀ i, 3 ≤ i → i < 6 → engStrain3 G i = 0)
    {e : Nat} (he : e < d.nel) (i : Nat) :
    elemOpApply (d.dofConn 3) 24 (stressElem3 sx sy sz g D) (affineNodal3 d sx sy sz G t) i e
      = ∑ j ∈ range 6, D i j * engStrain3 G j := by
  rw [stress_eq_D_strain_3d]
  apply Finset.sum_congr rfl; intro j hj
  have hj' := Finset.mem_range.mp hj
  rw [strainOut3 d hz true sx sy sz g hsx hsy hsz G t he j hj']
  split
  · rename_i h
    rw [hG j h.2 hj']; ring
  · rfl

/-- **energy identity (3-D), affine fields with zero engineering shear**, `V_e = sx·sy·sz` -/
theorem energy_identity_partial_3d (d : Dom) (hz : d.nelz ≠ 0) (sx sy sz g : α) (hsx : sx ≠ 0) (hsy : sy ≠ 0) (hsz : sz ≠ 0)
    (D : Nat → Nat → α) (x : Nat → α) (bcd : α) (G : Nat → Nat → α) (t : Nat → α)
    (hG : ∀ i, 3 ≤ i → i < 6 → engStrain3 G i = 0) :
    ∑ e ∈ range d.nel, x e * ((sx * sy * sz) * ∑ i ∈ range 6,
        elemOpApply (d.dofConn 3) 24 (stressElem3 sx sy sz g D) (affineNodal3 d sx sy sz G t) i e
          * elemOpApply (d.dofConn 3) 24 (strainElem3 true sx sy sz g) (affineNodal3 d sx sy sz G t) i e)
      = ∑ r ∈ range (3 * d.nnodes), ∑ c ∈ range (3 * d.nnodes),
          affineNodal3 d sx sy sz G t r * assembleDom d 3 (stiffElem3 sx sy sz g D) x none bcd none r c
            * affineNodal3 d sx sy sz G t c := by
  unfold assembleDom stiffElem3
  rw [assemble_stiff_energy d.nel (d.elemnodes * 3) (3 * d.nnodes) 8 6 (d.dofConn 3)
    (fun e b he hb => dofConn_lt d 3 he hb)]
  apply Finset.sum_congr rfl; intro e he
  have he' := Finset.mem_range.mp he
  congr 1
  rw [elemnodes_3d d hz]
  have hq : ∀ gp ∈ range 8, w3 sx sy sz * quadForm 6 D (Bv 24 (Bg3 sx sy sz g gp)
        (fun a => affineNodal3 d sx sy sz G t (d.dofConn 3 e a)))
      = w3 sx sy sz * quadForm 6 D (engStrain3 G) := by
    intro gp _
    congr 1
    unfold quadForm
    apply Finset.sum_congr rfl; intro i hi
    apply Finset.sum_congr rfl; intro j hj
    rw [show Bg3 sx sy sz g gp = getB3 true (shapeDer3 sx sy sz (gpos sx g gp 0) (gpos sy g gp 1) (gpos sz g gp 2))
        from rfl,
      mesh_strain3 d hz sx sy sz _ _ _ hsx hsy hsz G t he' i (Finset.mem_range.mp hi),
      mesh_strain3 d hz sx sy sz _ _ _ hsx hsy hsz G t he' j (Finset.mem_range.mp hj)]
  rw [Finset.sum_congr rfl hq]
  have hs : ∀ i ∈ range 6,
      elemOpApply (d.dofConn 3) 24 (stressElem3 sx sy sz g D) (affineNodal3 d sx sy sz G t) i e
        * elemOpApply (d.dofConn 3) 24 (strainElem3 true sx sy sz g) (affineNodal3 d sx sy sz G t) i e
      = ∑ j ∈ range 6, engStrain3 G i * D i j * engStrain3 G j := by
    intro i hi
    have hi' := Finset.mem_range.mp hi
    rw [stress_affine_noshear_3d d hz sx sy sz g hsx hsy hsz D G t hG he' i,
      strainOut3 d hz true sx sy sz g hsx hsy hsz G t he' i hi']
    have : (if true = true ∧ 3 ≤ i then engStrain3 G i * 2 else engStrain3 G i) = engStrain3 G i := by
      split
      · rename_i h; rw [hG i h.2 hi']; ring
      · rfl
    rw [this, Finset.sum_mul]
    apply Finset.sum_congr rfl; intro j _; ring
  rw [Finset.sum_congr rfl hs]
  simp only [Finset.sum_const, Finset.card_range, nsmul_eq_mul]
  unfold quadForm w3
  push_cast
  ring
end energy

/-- non-vacuity: a stretch + rotation gradient has zero engineering shear -/
example : (fun a b => if a = b then (2 : Rat) else if a = 0 then -3 else 3) 0 1
    + (fun a b => if a = b then (2 : Rat) else if a = 0 then -3 else 3) 1 0 = 0 := by norm_num


/-! ## `ElementAverage` of a linear nodal field is its centroid value -/
section average
set_option linter.unusedSectionVars false
variable {α : Type} [Field α] [CharZero α]

/-- one dof per node (2-D): element `(i,j)` receives `f(centroid)`, `f(X) = a·X + b` -/
theorem elemAverage_centroid_2d (d : Dom) (sx sy : α) (hsx : sx ≠ 0) (hsy : sy ≠ 0) {i j : Nat}
    (hi : i < d.nelx) (hj : j < d.nely) (a : Nat → α) (b : α) :
    elemOpApply (d.dofConn 1) 4 (avgElem2 sx sy) (affineScalar2 d sx sy a b) 0 (d.elemNumber i j 0)
      = a 0 * (sx * ((i : α) + 1 / 2)) + a 1 * (sy * ((j : α) + 1 / 2)) + b := by
  unfold elemOpApply
  simp only [gather_scalar2 d sx sy hi hj a b]
  simp only [sumRange, avgElem2, shape2, fac, corner, sgn, nbit]
  norm_num
  field_simp
  ring

/-- one dof per node (3-D) -/
theorem elemAverage_centroid_3d (d : Dom) (hz : d.nelz ≠ 0) (sx sy sz : α) (hsx : sx ≠ 0) (hsy : sy ≠ 0) (hsz : sz ≠ 0)
    {i j k : Nat} (hi : i < d.nelx) (hj : j < d.nely) (hk : k < d.nelz) (a : Nat → α) (b : α) :
    elemOpApply (d.dofConn 1) 8 (avgElem3 sx sy sz) (affineScalar3 d sx sy sz a b) 0 (d.elemNumber i j k)
      = a 0 * (sx * ((i : α) + 1 / 2)) + a 1 * (sy * ((j : α) + 1 / 2)) + a 2 * (sz * ((k : α) + 1 / 2)) + b := by
  unfold elemOpApply
  simp only [gather_scalar3 d hz sx sy sz hi hj hk a b]
  simp only [sumRange, avgElem3, shape3, fac, corner, sgn, nbit]
  norm_num
  field_simp
  ring

/-- several dofs per node — the "repeat per dof" path of `ElementOperation` (2-D, vector field
    `u(X) = G X + t`): row `c` of the output is component `c` at the centroid -/
theorem elemAverage_centroid_vec_2d (d : Dom) (sx sy : α) (hsx : sx ≠ 0) (hsy : sy ≠ 0) {i j : Nat}
    (hi : i < d.nelx) (hj : j < d.nely) (G : Nat → Nat → α) (t : Nat → α) (c : Nat) (hc : c < 2) :
    elemOpApply (d.dofConn 2) (2 * 4) (repeatPerDof 2 1 (avgElem2 sx sy)) (affineNodal2 d sx sy G t) c (d.elemNumber i j 0)
      = G c 0 * (sx * ((i : α) + 1 / 2)) + G c 1 * (sy * ((j : α) + 1 / 2)) + t c := by
  unfold elemOpApply
  simp only [gather_affine2 d sx sy hi hj G t]
  interval_cases c <;>
  · simp only [sumRange, repeatPerDof, ueAff2, avgElem2, shape2, fac, corner, sgn, nbit]
    norm_num
    field_simp
    ring
end average

/-! ## `NodalOperation` is the transpose of `ElementOperation` -/
section transpose
variable {α : Type} [CommRing α]

/-- **`<y, ElementOperation_EM(u)> = <NodalOperation_EM(y), u>`** for every grid, `ndof`, operator shape
    (`R` flattened leading rows), element matrix `EM`, nodal vector `u` and element data `y` -/
theorem nodalOp_eq_transpose_elemOp (d : Dom) (ndof R : Nat) (EM : Nat → Nat → α) (y : Nat → Nat → α) (u : Nat → α) :
    ∑ r ∈ range R, ∑ e ∈ range d.nel, y r e * elemOpApply (d.dofConn ndof) (d.elemnodes * ndof) EM u r e
      = ∑ q ∈ range (ndof * d.nnodes),
          nodalOpApply d.nel (d.dofConn ndof) R (d.elemnodes * ndof) EM y q * u q :=
  nodal_elem_adjoint d.nel (ndof * d.nnodes) R (d.elemnodes * ndof) (d.dofConn ndof)
    (fun _ _ he hk => dofConn_lt d ndof he hk) EM y u

/-- the wrappers succeed on well-shaped inputs and return exactly these operators -/
theorem elemOp_ok (d : Dom) (ndof R : Nat) (EM : Nat → Nat → α) (u : Nat → α) :
    elemOp d R (d.elemnodes * ndof) EM (ndof * d.nnodes) u
      = .ok (R, elemOpApply (d.dofConn ndof) (d.elemnodes * ndof) EM u) := by
  have hnn : 0 < d.nnodes := by unfold nnodes; positivity
  have h1 : d.elemnodes * ndof % d.elemnodes = 0 := Nat.mul_mod_right _ _
  have h2 : ndof * d.nnodes % d.nnodes = 0 := Nat.mul_mod_left _ _
  have h3 : ndof * d.nnodes / d.nnodes = ndof := Nat.mul_div_cancel _ hnn
  unfold elemOp
  simp [h1, h2, h3]

theorem nodalOp_ok (d : Dom) (ndof R : Nat) (EM : Nat → Nat → α) (y : Nat → Nat → α) :
    nodalOp d R (d.elemnodes * ndof) EM y
      = .ok (nodalOpApply d.nel (d.dofConn ndof) R (d.elemnodes * ndof) EM y) := by
  have hen : 0 < d.elemnodes := by unfold elemnodes; positivity
  have h1 : d.elemnodes * ndof % d.elemnodes = 0 := Nat.mul_mod_right _ _
  have h3 : d.elemnodes * ndof / d.elemnodes = ndof := Nat.mul_div_cancel_left _ hen
  unfold nodalOp
  simp [h1, h3]
end transpose


/-! ## thermal load of `ThermoMechanical` -/
section thermo
set_option linter.unusedSectionVars false
variable {α : Type} [Field α] [CharZero α]

/-- **the thermal load is orthogonal to every rigid-body motion** (2-D): for rigid `G` (`engStrain2 G = 0`),
    `Σ_q f_q u_q = 0`; with `G = 0` this is force balance per direction, with the rotation it is moment balance.
    Any `D`, any element data `xt` (= `x·ΔT` per element) -/
theorem thermo_self_equilibrated_2d (d : Dom) (hz : d.nelz = 0) (sx sy g alpha : α) (hsx : sx ≠ 0) (hsy : sy ≠ 0)
    (D : Nat → Nat → α) (xt : Nat → Nat → α) (G : Nat → Nat → α) (t : Nat → α)
    (hG : ∀ i, i < 3 → engStrain2 G i = 0) :
    ∑ q ∈ range (2 * d.nnodes),
        nodalOpApply d.nel (d.dofConn 2) 1 8 (thermoElem2 sx sy g alpha D) xt q * affineNodal2 d sx sy G t q = 0 := by
  have hdc : ∀ e k, e < d.nel → k < 8 → d.dofConn 2 e k < 2 * d.nnodes := by
    intro e k he hk
    exact dofConn_lt d 2 he (by rw [elemnodes_2d d hz]; exact hk)
  rw [← nodal_elem_adjoint d.nel (2 * d.nnodes) 1 8 (d.dofConn 2) hdc]
  apply Finset.sum_eq_zero; intro r _
  apply Finset.sum_eq_zero; intro e he
  have : elemOpApply (d.dofConn 2) 8 (thermoElem2 sx sy g alpha D) (affineNodal2 d sx sy G t) r e = 0 := by
    unfold elemOpApply thermoElem2
    rw [sumRange_eq, thermo_vecMul 4 3 2 8 (w2 sx sy) alpha (Bg2 sx sy g) D]
    have h0 : ∀ gp ∈ range 4, ∀ i ∈ range 3,
        Bv 8 (Bg2 sx sy g gp) (fun k => affineNodal2 d sx sy G t (d.dofConn 2 e k)) i = 0 := by
      intro gp _ i hi
      have hi' := Finset.mem_range.mp hi
      exact (mesh_strain2 d hz sx sy _ _ hsx hsy G t (Finset.mem_range.mp he) i hi').trans (hG i hi')
    have : ∑ gp ∈ range 4, ∑ j ∈ range 3, (w2 sx sy * ∑ i ∈ range 3,
        Bv 8 (Bg2 sx sy g gp) (fun k => affineNodal2 d sx sy G t (d.dofConn 2 e k)) i * D i j) * phi 2 j = 0 := by
      apply Finset.sum_eq_zero; intro gp hgp
      apply Finset.sum_eq_zero; intro j _
      have : ∑ i ∈ range 3, Bv 8 (Bg2 sx sy g gp) (fun k => affineNodal2 d sx sy G t (d.dofConn 2 e k)) i * D i j = 0 := by
        apply Finset.sum_eq_zero; intro i hi
        rw [h0 gp hgp i hi]; ring
      rw [this]; ring
    rw [this]; ring
  rw [this]; ring

/-- corollary: the nodal forces sum to zero in each direction (2-D) -/
theorem thermo_force_balance_2d (d : Dom) (hz : d.nelz = 0) (sx sy g alpha : α) (hsx : sx ≠ 0) (hsy : sy ≠ 0)
    (D : Nat → Nat → α) (xt : Nat → Nat → α) (dd : Nat) :
    ∑ q ∈ range (2 * d.nnodes),
        nodalOpApply d.nel (d.dofConn 2) 1 8 (thermoElem2 sx sy g alpha D) xt q * dirInd 2 dd q = 0 := by
  have h := thermo_self_equilibrated_2d d hz sx sy g alpha hsx hsy D xt (fun _ _ => 0)
    (fun c => if c = dd then 1 else 0) (by intro i _; simp [engStrain2])
  have e : ∀ q, affineNodal2 d sx sy (fun _ _ => (0 : α)) (fun c => if c = dd then 1 else 0) q = dirInd 2 dd q := by
    intro q; simp [affineNodal2, dirInd]
  simpa only [e] using h

/-- **thermal load = K · free-expansion field** (2-D): `f = K(xt) u_th` with `u_th(X) = α X`
    (unit temperature rise; `xt` scales both sides). Proved for EVERY `D`, hence for plane stress
    (and also plane strain) with any thickness. -/
theorem thermo_eq_K_free_expansion_2d (d : Dom) (hz : d.nelz = 0) (sx sy g alpha : α) (hsx : sx ≠ 0) (hsy : sy ≠ 0)
    (D : Nat → Nat → α) (xt : Nat → Nat → α) (bcd : α) (q : Nat) :
    nodalOpApply d.nel (d.dofConn 2) 1 8 (thermoElem2 sx sy g alpha D) xt q
      = ∑ c ∈ range (2 * d.nnodes), assembleDom d 2 (stiffElem2 sx sy g D) (xt 0) none bcd none q c
          * affineNodal2 d sx sy (fun a b => if a = b then alpha else 0) (fun _ => 0) c := by
  rw [nodalOpApply_one]
  unfold assembleDom
  rw [assemble_mulVec d.nel (d.elemnodes * 2) (2 * d.nnodes) (d.dofConn 2)
    (fun e b he hb => dofConn_lt d 2 he hb), elemnodes_2d d hz]
  apply Finset.sum_congr rfl; intro e he
  apply Finset.sum_congr rfl; intro a _
  split
  · unfold stiffElem2 thermoElem2
    rw [stiff_mulVec_thermal 4 3 2 (4 * 2) (w2 sx sy) alpha (Bg2 sx sy g) D]
    intro gp _ j hj
    rw [show Bg2 sx sy g gp = getB2 (shapeDer2 sx sy (gpos sx g gp 0) (gpos sy g gp 1)) from rfl]
    rw [mesh_strain2 d hz sx sy _ _ hsx hsy _ _ (Finset.mem_range.mp he) j hj]
    interval_cases j <;> simp [engStrain2, phi]
  · rfl

/-- **the thermal load is orthogonal to every rigid-body motion** (3-D) -/
theorem thermo_self_equilibrated_3d (d : Dom) (hz : d.nelz ≠ 0) (sx sy sz g alpha : α)
    (hsx : sx ≠ 0) (hsy : sy ≠ 0) (hsz : sz ≠ 0)
    (D : Nat → Nat → α) (xt : Nat → Nat → α) (G : Nat → Nat → α) (t : Nat → α)
    (hG : ∀ i, i < 6 → engStrain3 G i = 0) :
    ∑ q ∈ range (3 * d.nnodes),
        nodalOpApply d.nel (d.dofConn 3) 1 24 (thermoElem3 sx sy sz g alpha D) xt q
          * affineNodal3 d sx sy sz G t q = 0 := by
  have hdc : ∀ e k, e < d.nel → k < 24 → d.dofConn 3 e k < 3 * d.nnodes := by
    intro e k he hk
    exact dofConn_lt d 3 he (by rw [elemnodes_3d d hz]; exact hk)
  rw [← nodal_elem_adjoint d.nel (3 * d.nnodes) 1 24 (d.dofConn 3) hdc]
  apply Finset.sum_eq_zero; intro r _
  apply Finset.sum_eq_zero; intro e he
  have : elemOpApply (d.dofConn 3) 24 (thermoElem3 sx sy sz g alpha D) (affineNodal3 d sx sy sz G t) r e = 0 := by
    unfold elemOpApply thermoElem3
    rw [sumRange_eq, thermo_vecMul 8 6 3 24 (w3 sx sy sz) alpha (Bg3 sx sy sz g) D]
    have h0 : ∀ gp ∈ range 8, ∀ i ∈ range 6,
        Bv 24 (Bg3 sx sy sz g gp) (fun k => affineNodal3 d sx sy sz G t (d.dofConn 3 e k)) i = 0 := by
      intro gp _ i hi
      have hi' := Finset.mem_range.mp hi
      exact (mesh_strain3 d hz sx sy sz _ _ _ hsx hsy hsz G t (Finset.mem_range.mp he) i hi').trans (hG i hi')
    have : ∑ gp ∈ range 8, ∑ j ∈ range 6, (w3 sx sy sz * ∑ i ∈ range 6,
        Bv 24 (Bg3 sx sy sz g gp) (fun k => affineNodal3 d sx sy sz G t (d.dofConn 3 e k)) i * D i j) * phi 3 j = 0 := by
      apply Finset.sum_eq_zero; intro gp hgp
      apply Finset.sum_eq_zero; intro j _
      have : ∑ i ∈ range 6, Bv 24 (Bg3 sx sy sz g gp) (fun k => affineNodal3 d sx sy sz G t (d.dofConn 3 e k)) i * D i j
          = 0 := by
        apply Finset.sum_eq_zero; intro i hi
        rw [h0 gp hgp i hi]; ring
      rw [this]; ring
    rw [this]; ring
  rw [this]; ring

/-- corollary: the nodal forces sum to zero in each direction (3-D) -/
theorem thermo_force_balance_3d (d : Dom) (hz : d.nelz ≠ 0) (sx sy sz g alpha : α)
    (hsx : sx ≠ 0) (hsy : sy ≠ 0) (hsz : sz ≠ 0) (D : Nat → Nat → α) (xt : Nat → Nat → α) (dd : Nat) :
    ∑ q ∈ range (3 * d.nnodes),
        nodalOpApply d.nel (d.dofConn 3) 1 24 (thermoElem3 sx sy sz g alpha D) xt q * dirInd 3 dd q = 0 := by
  have h := thermo_self_equilibrated_3d d hz sx sy sz g alpha hsx hsy hsz D xt (fun _ _ => 0)
    (fun c => if c = dd then 1 else 0) (by intro i _; simp [engStrain3])
  have e : ∀ q, affineNodal3 d sx sy sz (fun _ _ => (0 : α)) (fun c => if c = dd then 1 else 0) q = dirInd 3 dd q := by
    intro q; simp [affineNodal3, dirInd]
  simpa only [e] using h

/-- **thermal load = K · free-expansion field** (3-D), every `D` -/
theorem thermo_eq_K_free_expansion_3d (d : Dom) (hz : d.nelz ≠ 0) (sx sy sz g alpha : α)
    (hsx : sx ≠ 0) (hsy : sy ≠ 0) (hsz : sz ≠ 0)
    (D : Nat → Nat → α) (xt : Nat → Nat → α) (bcd : α) (q : Nat) :
    nodalOpApply d.nel (d.dofConn 3) 1 24 (thermoElem3 sx sy sz g alpha D) xt q
      = ∑ c ∈ range (3 * d.nnodes), assembleDom d 3 (stiffElem3 sx sy sz g D) (xt 0) none bcd none q c
          * affineNodal3 d sx sy sz (fun a b => if a = b then alpha else 0) (fun _ => 0) c := by
  rw [nodalOpApply_one]
  unfold assembleDom
  rw [assemble_mulVec d.nel (d.elemnodes * 3) (3 * d.nnodes) (d.dofConn 3)
    (fun e b he hb => dofConn_lt d 3 he hb), elemnodes_3d d hz]
  apply Finset.sum_congr rfl; intro e he
  apply Finset.sum_congr rfl; intro a _
  split
  · unfold stiffElem3 thermoElem3
    rw [stiff_mulVec_thermal 8 6 3 (8 * 3) (w3 sx sy sz) alpha (Bg3 sx sy sz g) D]
    intro gp _ j hj
    rw [show Bg3 sx sy sz g gp = getB3 true (shapeDer3 sx sy sz (gpos sx g gp 0) (gpos sy g gp 1) (gpos sz g gp 2))
      from rfl]
    rw [mesh_strain3 d hz sx sy sz _ _ _ hsx hsy hsz _ _ (Finset.mem_range.mp he) j hj]
    interval_cases j <;> simp [engStrain3, phi]
  · rfl
end thermo

/-- non-vacuity: the theorems instantiate on a concrete grid over ℚ -/
example : ∑ q ∈ range (2 * (⟨2, 1, 0⟩ : Dom).nnodes),
    nodalOpApply (⟨2, 1, 0⟩ : Dom).nel ((⟨2, 1, 0⟩ : Dom).dofConn 2) 1 8
      (thermoElem2 (1 : Rat) 2 (1 / 3) 5 (getD 1 (1 / 4) .stress)) (fun _ e => (e : Rat) + 1) q * dirInd 2 1 q = 0 :=
  thermo_force_balance_2d ⟨2, 1, 0⟩ rfl 1 2 (1 / 3) 5 (by norm_num) (by norm_num) _ _ 1

end PymotoVerif.C12
