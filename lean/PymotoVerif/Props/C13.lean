/-
C13 — Structured-grid numbering, connectivity and shape functions are consistent.
Property theorems ONLY (helper lemmas live in `Lemmas/Domain.lean`).

Model: `Core/Domain.lean` (literal transcription of `DomainDefinition`).
All statements hold for EVERY grid size / element size / evaluation point.
-/
import PymotoVerif.Lemmas.Domain
import PymotoVerif.Lemmas.Sum
import Mathlib.Tactic.FieldSimp
import Mathlib.Tactic.IntervalCases
import Mathlib.Tactic.NormNum
import Mathlib.Tactic.Positivity
import Mathlib.Algebra.Order.Field.Basic
import Mathlib.Algebra.CharZero.Defs
import Mathlib.Data.Rat.Init

namespace PymotoVerif.C13
open PymotoVerif PymotoVerif.Domain Dom

/-! ## numbering is a bijection with Cartesian indices -/

theorem elemNumber_lt (d : Dom) {i j k : Nat} (hi : i < d.nelx) (hj : j < d.nely) (hk : k < d.nz) :
    d.elemNumber i j k < d.nel := by
  unfold elemNumber nel
  have h1 : k * d.nely + j < d.nz * d.nely := radix_lt hk hj
  have h2 := radix_lt (n := d.nelx) h1 hi
  calc (k * d.nely + j) * d.nelx + i < d.nz * d.nely * d.nelx := h2
    _ = d.nelx * d.nely * d.nz := by ring

theorem elemNumber_inj (d : Dom) {i j k i' j' k' : Nat} (hi : i < d.nelx) (hi' : i' < d.nelx)
    (hj : j < d.nely) (hj' : j' < d.nely)
    (h : d.elemNumber i j k = d.elemNumber i' j' k') : i = i' ∧ j = j' ∧ k = k' := by
  unfold elemNumber at h
  obtain ⟨h1, h2⟩ := radix_inj hi hi' h
  obtain ⟨h3, h4⟩ := radix_inj hj hj' h1
  exact ⟨h2, h4, h3⟩

/-- every element number below `nel` is hit (by its `%`/`/` decode) -/
theorem elemNumber_surj (d : Dom) {e : Nat} (he : e < d.nel) :
    ∃ i j k, i < d.nelx ∧ j < d.nely ∧ k < d.nz ∧ d.elemNumber i j k = e := by
  unfold nel at he
  have hx : 0 < d.nelx := by
    rcases Nat.eq_zero_or_pos d.nelx with h | h
    · simp [h] at he
    · exact h
  have hy : 0 < d.nely := by
    rcases Nat.eq_zero_or_pos d.nely with h | h
    · simp [h] at he
    · exact h
  refine ⟨e % d.nelx, (e / d.nelx) % d.nely, e / d.nelx / d.nely, Nat.mod_lt _ hx, Nat.mod_lt _ hy, ?_, ?_⟩
  · rw [Nat.div_div_eq_div_mul, Nat.div_lt_iff_lt_mul (Nat.mul_pos hx hy)]
    calc e < d.nelx * d.nely * d.nz := he
      _ = d.nz * (d.nelx * d.nely) := by ring
  · unfold elemNumber
    have h1 := Nat.div_add_mod (e / d.nelx) d.nely
    have h2 := Nat.div_add_mod e d.nelx
    calc (e / d.nelx / d.nely * d.nely + e / d.nelx % d.nely) * d.nelx + e % d.nelx
        = (d.nely * (e / d.nelx / d.nely) + e / d.nelx % d.nely) * d.nelx + e % d.nelx := by ring
      _ = (e / d.nelx) * d.nelx + e % d.nelx := by rw [h1]
      _ = d.nelx * (e / d.nelx) + e % d.nelx := by ring
      _ = e := h2

theorem nodeNumber_lt (d : Dom) {i j k : Nat} (hi : i ≤ d.nelx) (hj : j ≤ d.nely) (hk : k ≤ d.nelz) :
    d.nodeNumber i j k < d.nnodes := by
  unfold nodeNumber nnodes
  have h1 : k * (d.nely + 1) + j < (d.nelz + 1) * (d.nely + 1) := radix_lt (by omega) (by omega)
  have h2 := radix_lt (n := d.nelx + 1) (b := i) h1 (by omega)
  calc (k * (d.nely + 1) + j) * (d.nelx + 1) + i < (d.nelz + 1) * (d.nely + 1) * (d.nelx + 1) := h2
    _ = (d.nelx + 1) * (d.nely + 1) * (d.nelz + 1) := by ring

theorem nodeNumber_inj (d : Dom) {i j k i' j' k' : Nat} (hi : i ≤ d.nelx) (hi' : i' ≤ d.nelx)
    (hj : j ≤ d.nely) (hj' : j' ≤ d.nely)
    (h : d.nodeNumber i j k = d.nodeNumber i' j' k') : i = i' ∧ j = j' ∧ k = k' := by
  unfold nodeNumber at h
  obtain ⟨h1, h2⟩ := radix_inj (n := d.nelx + 1) (by omega) (by omega) h
  obtain ⟨h3, h4⟩ := radix_inj (n := d.nely + 1) (by omega) (by omega) h1
  exact ⟨h2, h4, h3⟩

/-- `get_node_indices ∘ get_nodenumber = id` on the grid (2-D and 3-D) -/
theorem nodeIndices_nodeNumber (d : Dom) {i j k : Nat} (hi : i ≤ d.nelx) (hj : j ≤ d.nely) :
    d.nodeI (d.nodeNumber i j k) = i ∧ d.nodeJ (d.nodeNumber i j k) = j ∧
    d.nodeK (d.nodeNumber i j k) = k := by
  unfold nodeI nodeJ nodeK nodeNumber
  have hi' : i < d.nelx + 1 := by omega
  have hj' : j < d.nely + 1 := by omega
  refine ⟨radix_mod hi', ?_, ?_⟩
  · rw [radix_div hi', radix_mod hj']
  · rw [← Nat.div_div_eq_div_mul, radix_div hi', radix_div hj']

/-- `get_nodenumber ∘ get_node_indices = id` for every node number -/
theorem nodeNumber_nodeIndices (d : Dom) (n : Nat) :
    d.nodeNumber (d.nodeI n) (d.nodeJ n) (d.nodeK n) = n := by
  unfold nodeI nodeJ nodeK nodeNumber
  rw [← Nat.div_div_eq_div_mul]
  have h1 := Nat.div_add_mod (n / (d.nelx + 1)) (d.nely + 1)
  have h2 := Nat.div_add_mod n (d.nelx + 1)
  calc (n / (d.nelx + 1) / (d.nely + 1) * (d.nely + 1) + n / (d.nelx + 1) % (d.nely + 1)) * (d.nelx + 1)
        + n % (d.nelx + 1)
      = ((d.nely + 1) * (n / (d.nelx + 1) / (d.nely + 1)) + n / (d.nelx + 1) % (d.nely + 1)) * (d.nelx + 1)
        + n % (d.nelx + 1) := by ring
    _ = (n / (d.nelx + 1)) * (d.nelx + 1) + n % (d.nelx + 1) := by rw [h1]
    _ = (d.nelx + 1) * (n / (d.nelx + 1)) + n % (d.nelx + 1) := by ring
    _ = n := h2

/-- the decoded indices of a node number below `nnodes` lie on the grid -/
theorem nodeIndices_lt (d : Dom) {n : Nat} (hn : n < d.nnodes) :
    d.nodeI n ≤ d.nelx ∧ d.nodeJ n ≤ d.nely ∧ d.nodeK n ≤ d.nelz := by
  unfold nodeI nodeJ nodeK
  refine ⟨Nat.lt_succ_iff.mp (Nat.mod_lt _ (by omega)), Nat.lt_succ_iff.mp (Nat.mod_lt _ (by omega)), ?_⟩
  apply Nat.lt_succ_iff.mp
  rw [Nat.div_lt_iff_lt_mul (by positivity)]
  unfold nnodes at hn
  calc n < (d.nelx + 1) * (d.nely + 1) * (d.nelz + 1) := hn
    _ = (d.nelz + 1) * ((d.nelx + 1) * (d.nely + 1)) := by ring

/-! ## connectivity -/

/-- the constructor's enumeration position of element `(i,j,k)` -/
def pos (d : Dom) (i j k : Nat) : Nat := (i * d.nely + j) * d.nz + k

theorem pos_decode (d : Dom) {i j k : Nat} (hj : j < d.nely) (hk : k < d.nz) :
    d.elx (pos d i j k) = i ∧ d.ely (pos d i j k) = j ∧ d.elz (pos d i j k) = k := by
  unfold elx ely elz pos
  refine ⟨?_, ?_, radix_mod hk⟩
  · rw [Nat.mul_comm d.nely d.nz, ← Nat.div_div_eq_div_mul, radix_div hk, radix_div hj]
  · rw [radix_div hk, radix_mod hj]

theorem pos_encode (d : Dom) (p : Nat) : pos d (d.elx p) (d.ely p) (d.elz p) = p := by
  unfold elx ely elz pos
  rw [Nat.mul_comm d.nely d.nz, ← Nat.div_div_eq_div_mul]
  have h1 := Nat.div_add_mod (p / d.nz) d.nely
  have h2 := Nat.div_add_mod p d.nz
  calc (p / d.nz / d.nely * d.nely + p / d.nz % d.nely) * d.nz + p % d.nz
      = (d.nely * (p / d.nz / d.nely) + p / d.nz % d.nely) * d.nz + p % d.nz := by ring
    _ = (p / d.nz) * d.nz + p % d.nz := by rw [h1]
    _ = d.nz * (p / d.nz) + p % d.nz := by ring
    _ = p := h2

theorem pos_lt (d : Dom) {i j k : Nat} (hi : i < d.nelx) (hj : j < d.nely) (hk : k < d.nz) :
    pos d i j k < d.nel := by
  unfold pos nel
  exact radix_lt (radix_lt hi hj) hk

theorem decode_lt (d : Dom) {p : Nat} (hp : p < d.nel) :
    d.elx p < d.nelx ∧ d.ely p < d.nely ∧ d.elz p < d.nz := by
  unfold nel at hp
  have hy : 0 < d.nely := by
    rcases Nat.eq_zero_or_pos d.nely with h | h
    · simp [h] at hp
    · exact h
  unfold elx ely elz
  refine ⟨?_, Nat.mod_lt _ hy, Nat.mod_lt _ (nz_pos d)⟩
  rw [Nat.div_lt_iff_lt_mul (Nat.mul_pos hy (nz_pos d))]
  calc p < d.nelx * d.nely * d.nz := hp
    _ = d.nelx * (d.nely * d.nz) := by ring

private theorem find_unique (l : List Nat) (pred : Nat → Bool) (p : Nat)
    (huniq : ∀ q ∈ l, pred q = true → q = p) (hmem : p ∈ l) (hp : pred p = true) :
    l.find? pred = some p := by
  induction l with
  | nil => cases hmem
  | cons a t ih =>
    by_cases ha : pred a = true
    · have : a = p := huniq a (by simp) ha
      subst this; simp [List.find?, ha]
    · have hap : a ≠ p := fun h => ha (h ▸ hp)
      have hmem' : p ∈ t := by
        rcases List.mem_cons.mp hmem with h | h
        · exact absurd h.symm hap
        · exact h
      simp only [List.find?, Bool.not_eq_true] at ha ⊢
      rw [ha]
      exact ih (fun q hq => huniq q (List.mem_cons_of_mem _ hq)) hmem'

/-- the constructor's table row for element `(i,j,k)` is filled from exactly that element -/
theorem connRowSrc_eq (d : Dom) {i j k : Nat} (hi : i < d.nelx) (hj : j < d.nely) (hk : k < d.nz) :
    d.connRowSrc (d.elemNumber i j k) = some (pos d i j k) := by
  unfold connRowSrc
  apply find_unique
  · intro q hq hpred
    have hq' : q < d.nel := by simpa using hq
    obtain ⟨hx, hy, hz⟩ := decode_lt d hq'
    have heq : d.elemNumber (d.elx q) (d.ely q) (d.elz q) = d.elemNumber i j k := by
      simpa [elOf] using of_decide_eq_true hpred
    obtain ⟨e1, e2, e3⟩ := elemNumber_inj d hx hi hy hj heq
    rw [← pos_encode d q, e1, e2, e3]
  · simpa using pos_lt d hi hj hk
  · obtain ⟨e1, e2, e3⟩ := pos_decode d (i := i) hj hk
    simp [elOf, e1, e2, e3]

/-- **connectivity lists the corner nodes in the documented local order**:
    local node `l` of element `(i,j,k)` is grid node `(i + bit₀ l, j + bit₁ l, k + bit₂ l)` -/
theorem conn_corner (d : Dom) {i j k : Nat} (hi : i < d.nelx) (hj : j < d.nely) (hk : k < d.nz) (l : Nat) :
    d.conn (d.elemNumber i j k) l = d.nodeNumber (i + nbit l 0) (j + nbit l 1) (k + nbit l 2) := by
  obtain ⟨e1, e2, e3⟩ := pos_decode d (i := i) hj hk
  simp only [conn, connRowSrc_eq d hi hj hk, elemConn, e1, e2, e3]

/-- in a 2-D domain the local nodes `l < 4` have no z offset -/
theorem nbit2_of_lt4 {l : Nat} (hl : l < 4) : nbit l 2 = 0 := by
  unfold nbit; norm_num; omega

theorem conn_lt_nnodes (d : Dom) {i j k : Nat} (hi : i < d.nelx) (hj : j < d.nely) (hk : k < d.nz)
    {l : Nat} (hl : l < d.elemnodes) : d.conn (d.elemNumber i j k) l < d.nnodes := by
  rw [conn_corner d hi hj hk]
  have b0 := nbit_le l 0; have b1 := nbit_le l 1; have b2 := nbit_le l 2
  apply nodeNumber_lt <;> try omega
  unfold Dom.nz at hk
  unfold elemnodes dim at hl
  by_cases hz : d.nelz = 0
  · simp [hz] at hl hk
    have := nbit2_of_lt4 hl
    omega
  · omega

/-- the `2^dim` corner nodes of one element are pairwise distinct -/
theorem conn_distinct (d : Dom) {i j k : Nat} (hi : i < d.nelx) (hj : j < d.nely) (hk : k < d.nz)
    {l l' : Nat} (hl : l < d.elemnodes) (hl' : l' < d.elemnodes)
    (h : d.conn (d.elemNumber i j k) l = d.conn (d.elemNumber i j k) l') : l = l' := by
  rw [conn_corner d hi hj hk, conn_corner d hi hj hk] at h
  have b0 := nbit_le l 0; have b1 := nbit_le l 1
  have b0' := nbit_le l' 0; have b1' := nbit_le l' 1
  obtain ⟨e1, e2, e3⟩ := nodeNumber_inj d (by omega) (by omega) (by omega) (by omega) h
  have h8 : d.elemnodes ≤ 8 := by unfold elemnodes dim; split <;> norm_num
  exact bits_inj (by omega) (by omega) (by omega) (by omega) (by omega)

/-- **dof connectivity expands the node connectivity per dof** -/
theorem dofConn_closed (d : Dom) (ndof e l c : Nat) (hc : c < ndof) :
    d.dofConn ndof e (l * ndof + c) = d.conn e l * ndof + c := by
  unfold dofConn
  rw [radix_div hc, radix_mod hc]

/-! ## node positions -/

/-- `get_node_position` : `element_size[:dim] * ijk` -/
def nodePos {α} [Mul α] [NatCast α] (d : Dom) (sx sy sz : α) (n : Nat) : α × α × α :=
  (sx * (d.nodeI n : α), sy * (d.nodeJ n : α), sz * (d.nodeK n : α))

theorem nodePosition_eq {α} [Mul α] [NatCast α] (d : Dom) (sx sy sz : α) {i j k : Nat}
    (hi : i ≤ d.nelx) (hj : j ≤ d.nely) :
    nodePos d sx sy sz (d.nodeNumber i j k) = (sx * (i : α), sy * (j : α), sz * (k : α)) := by
  obtain ⟨e1, e2, e3⟩ := nodeIndices_nodeNumber d (k := k) hi hj
  simp only [nodePos, e1, e2, e3]

/-! ## shape functions (every evaluation point, every positive element size) -/
section shape
set_option linter.unusedSectionVars false
variable {α : Type} [Field α] [CharZero α]

private theorem nb (l a : Nat) : nbit l a = (l / 2 ^ a) % 2 := rfl

/-- partition of unity, 2-D -/
theorem shape2_sum_one (sx sy px py : α) (hx : sx ≠ 0) (hy : sy ≠ 0) :
    sumRange 4 (fun l => shape2 sx sy px py l) = 1 := by
  simp only [sumRange, shape2, fac, sgn, nb]
  norm_num
  field_simp
  ring

/-- partition of unity, 3-D -/
theorem shape3_sum_one (sx sy sz px py pz : α) (hx : sx ≠ 0) (hy : sy ≠ 0) (hz : sz ≠ 0) :
    sumRange 8 (fun l => shape3 sx sy sz px py pz l) = 1 := by
  simp only [sumRange, shape3, fac, sgn, nb]
  norm_num
  field_simp
  ring

/-- position of corner `m` (local coordinates, origin at the element centre) -/
def corner (s : α) (m a : Nat) : α := sgn m a * (s / 2)

/-- Kronecker property, 2-D: `N_l(corner_m) = δ_lm` -/
theorem shape2_kronecker (sx sy : α) (hx : sx ≠ 0) (hy : sy ≠ 0) {l m : Nat} (hl : l < 4) (hm : m < 4) :
    shape2 sx sy (corner sx m 0) (corner sy m 1) l = if l = m then 1 else 0 := by
  simp only [shape2, fac, sgn, corner, nb]
  interval_cases l <;> interval_cases m <;> norm_num <;> field_simp <;> ring

/-- Kronecker property, 3-D -/
theorem shape3_kronecker (sx sy sz : α) (hx : sx ≠ 0) (hy : sy ≠ 0) (hz : sz ≠ 0) {l m : Nat}
    (hl : l < 8) (hm : m < 8) :
    shape3 sx sy sz (corner sx m 0) (corner sy m 1) (corner sz m 2) l = if l = m then 1 else 0 := by
  simp only [shape3, fac, sgn, corner, nb]
  interval_cases l <;> interval_cases m <;> norm_num <;> field_simp <;> ring

/-- the reported derivative IS the gradient: `N` is affine along each axis, so
    `N(p + t eᵢ) = N(p) + t · dN[i]` for ALL `t` (2-D, x direction) -/
theorem shapeDer2_exact_x (sx sy px py t : α) (l : Nat) :
    shape2 sx sy (px + t) py l = shape2 sx sy px py l + t * shapeDer2 sx sy px py 0 l := by
  simp only [shape2, shapeDer2, fac, if_true]; ring
theorem shapeDer2_exact_y (sx sy px py t : α) (l : Nat) :
    shape2 sx sy px (py + t) l = shape2 sx sy px py l + t * shapeDer2 sx sy px py 1 l := by
  simp only [shape2, shapeDer2, fac]; norm_num; ring
theorem shapeDer3_exact_x (sx sy sz px py pz t : α) (l : Nat) :
    shape3 sx sy sz (px + t) py pz l = shape3 sx sy sz px py pz l + t * shapeDer3 sx sy sz px py pz 0 l := by
  simp only [shape3, shapeDer3, fac, if_true]; ring
theorem shapeDer3_exact_y (sx sy sz px py pz t : α) (l : Nat) :
    shape3 sx sy sz px (py + t) pz l = shape3 sx sy sz px py pz l + t * shapeDer3 sx sy sz px py pz 1 l := by
  simp only [shape3, shapeDer3, fac]; norm_num; ring
theorem shapeDer3_exact_z (sx sy sz px py pz t : α) (l : Nat) :
    shape3 sx sy sz px py (pz + t) l = shape3 sx sy sz px py pz l + t * shapeDer3 sx sy sz px py pz 2 l := by
  simp only [shape3, shapeDer3, fac]; norm_num; ring

/-- derivatives of a partition of unity sum to zero (used by C08 rigid-body null space) -/
theorem shapeDer2_sum_zero (sx sy px py : α) (i : Nat) :
    sumRange 4 (fun l => shapeDer2 sx sy px py i l) = 0 := by
  simp only [sumRange, shapeDer2, fac, sgn, nb]
  split <;> norm_num
theorem shapeDer3_sum_zero (sx sy sz px py pz : α) (i : Nat) :
    sumRange 8 (fun l => shapeDer3 sx sy sz px py pz i l) = 0 := by
  simp only [sumRange, shapeDer3, fac, sgn, nb]
  split
  · norm_num
  · split
    · norm_num
    · norm_num; ring

/-- linear completeness: `Σ_l ∂ᵢN_l · X_l[j] = δᵢⱼ` with `X_l` the corner positions (2-D) -/
theorem shapeDer2_linear_complete (sx sy px py : α) (hx : sx ≠ 0) (hy : sy ≠ 0) {i j : Nat}
    (hi : i < 2) (hj : j < 2) :
    sumRange 4 (fun l => shapeDer2 sx sy px py i l * corner (if j = 0 then sx else sy) l j)
      = if i = j then 1 else 0 := by
  simp only [sumRange, shapeDer2, fac, sgn, corner, nb]
  interval_cases i <;> interval_cases j <;> norm_num <;> field_simp <;> ring

theorem shapeDer3_linear_complete (sx sy sz px py pz : α) (hx : sx ≠ 0) (hy : sy ≠ 0) (hz : sz ≠ 0)
    {i j : Nat} (hi : i < 3) (hj : j < 3) :
    sumRange 8 (fun l => shapeDer3 sx sy sz px py pz i l *
        corner (if j = 0 then sx else if j = 1 then sy else sz) l j)
      = if i = j then 1 else 0 := by
  simp only [sumRange, shapeDer3, fac, sgn, corner, nb]
  interval_cases i <;> interval_cases j <;> norm_num <;> field_simp <;> ring
end shape

section order
variable {α : Type} [Field α] [LinearOrder α] [IsStrictOrderedRing α]

private theorem fac_nonneg (s p : α) (hp1 : -(s / 2) ≤ p) (hp2 : p ≤ s / 2) (l a : Nat) :
    0 ≤ fac s p l a := by
  unfold fac sgn
  split
  · linarith
  · linarith

/-- shape functions are non-negative at every point of the element (2-D) -/
theorem shape2_nonneg (sx sy px py : α) (hx : 0 < sx) (hy : 0 < sy)
    (hpx1 : -(sx / 2) ≤ px) (hpx2 : px ≤ sx / 2) (hpy1 : -(sy / 2) ≤ py) (hpy2 : py ≤ sy / 2) (l : Nat) :
    0 ≤ shape2 sx sy px py l := by
  unfold shape2
  have h1 := fac_nonneg sx px hpx1 hpx2 l 0
  have h2 := fac_nonneg sy py hpy1 hpy2 l 1
  have h0 : 0 ≤ 1 / (sx * sy) := by positivity
  exact mul_nonneg (mul_nonneg h0 h1) h2

theorem shape3_nonneg (sx sy sz px py pz : α) (hx : 0 < sx) (hy : 0 < sy) (hz : 0 < sz)
    (hpx1 : -(sx / 2) ≤ px) (hpx2 : px ≤ sx / 2) (hpy1 : -(sy / 2) ≤ py) (hpy2 : py ≤ sy / 2)
    (hpz1 : -(sz / 2) ≤ pz) (hpz2 : pz ≤ sz / 2) (l : Nat) :
    0 ≤ shape3 sx sy sz px py pz l := by
  unfold shape3
  have h1 := fac_nonneg sx px hpx1 hpx2 l 0
  have h2 := fac_nonneg sy py hpy1 hpy2 l 1
  have h3 := fac_nonneg sz pz hpz1 hpz2 l 2
  have h0 : 0 ≤ 1 / (sx * sy * sz) := by positivity
  exact mul_nonneg (mul_nonneg (mul_nonneg h0 h1) h2) h3
end order

/-! ## non-vacuity: concrete instances of the hypotheses -/
example : (⟨3, 2, 0⟩ : Dom).conn ((⟨3, 2, 0⟩ : Dom).elemNumber 2 1 0) 3 = (⟨3, 2, 0⟩ : Dom).nodeNumber 3 2 0 :=
  conn_corner ⟨3, 2, 0⟩ (by decide) (by decide) (by decide) 3
example : (⟨2, 2, 2⟩ : Dom).conn 7 7 = 26 := by decide
example : sumRange 4 (fun l => shape2 (2 : Rat) 3 (1/2) (1/3) l) = 1 :=
  shape2_sum_one _ _ _ _ (by norm_num) (by norm_num)
example : (0 : Rat) ≤ shape2 (2 : Rat) 3 (1/2) (-1/3) 2 :=
  shape2_nonneg _ _ _ _ (by norm_num) (by norm_num) (by norm_num) (by norm_num) (by norm_num) (by norm_num) 2

end PymotoVerif.C13
