/-
C14 — The overhang filter prints layer by layer in the requested direction.
Property theorems ONLY (helper lemmas live in `Lemmas/Overhang*.lean`).

Model: `Core/Overhang.lean` (transcription of `OverhangFilter._prepare / set_parameters / _response / _sensitivity`).
Notation: `g : Geo` holds `dir_layer`, `dx_layer`, `nsampling` and the domain; `g.el l a b` is the element number the
code builds for layer `l` and in-layer position `(a, b)`; `layerIdx g t` is the `t`-th layer in print order
(`t` for `dx_layer = +1`, `nl-1-t` for `dx_layer = -1`); `(response F P g x).xprint` is the returned field.
-/
import PymotoVerif.Lemmas.Overhang
import PymotoVerif.Lemmas.OverhangReal
import PymotoVerif.Lemmas.OverhangSymm
import PymotoVerif.Lemmas.OverhangSens
import PymotoVerif.Lemmas.OverhangDeriv
import PymotoVerif.Lemmas.OverhangBackprop
import PymotoVerif.Lemmas.OverhangPrepare
import PymotoVerif.Lemmas.OverhangPerm
import Mathlib.Algebra.Order.Field.Rat

namespace PymotoVerif.C14
open PymotoVerif PymotoVerif.Domain PymotoVerif.Overhang

/-! ## direction strings -/

/-- every intended form (`x`, `+x`, `x+`, `-x`, `x-`, either case, for x, y, z) is read as the intended unit vector -/
theorem parse_direction_table :
    ∀ p ∈ wellFormed, parseStr (α := Int) p.1 = .ok p.2 := by decide

/-- the 30 intended forms are really there -/
example : wellFormed.length = 30 ∧ (['y', '-'], [0, -1, 0]) ∈ wellFormed ∧ (['+', 'Z'], [0, 0, 1]) ∈ wellFormed := by
  decide

/-- all 585 strings over the alphabet `x y z X Y Z + -` of length ≤ 3 that do not name exactly one axis are
    rejected with `ValueError`, the others are accepted -/
theorem parse_direction_malformed_table :
    (stringsUpTo 3).all (fun s =>
      if axisCount s = 1 then (parseStr (α := Int) s).isOk else parseStr (α := Int) s == .error "ValueError") = true := by
  decide +kernel

/-- general form, any string over any characters: a string is rejected (with `ValueError`) iff it does not contain
    exactly one of the axis letters; otherwise the result is `± e_axis` with the sign `-` iff the string contains `-`.
    (The code is lenient: `"xx"`, `"+-x"`, `"foo x"` are accepted.) -/
theorem parse_direction_general {α} [Neg α] [OfNat α 0] [OfNat α 1] (s : List Char) :
    (axisCount s = 1 →
      parseStr (α := α) s = .ok (unitVec (axisOf s) (if hasMinus s then -1 else 1))) ∧
    (axisCount s ≠ 1 → parseStr (α := α) s = .error "ValueError") := by
  rw [parseStr_spec]
  constructor <;> intro h <;> simp [h]

example : axisCount ['y', '-'] = 1 ∧ axisCount ['x', 'y'] ≠ 1 ∧ axisCount [] ≠ 1 := by decide

/-! ## the layer recursion -/

section Layers
variable {α : Type} [Add α] [Sub α] [Mul α] [Div α] [Neg α] [OfNat α 0] [OfNat α 1] [OfNat α 2]

/-- the first layer in print direction is returned unchanged (any grid, direction, nsampling, scalar type) -/
theorem overhang_base_layer (F : Fns α) (P : Par α) (g : Geo) (x : Nat → α) (hd : g.dirLayer < 3)
    (hdx : g.dxLayer = 1 ∨ g.dxLayer = -1) {a b : Nat} (hl : 0 < g.nl) (ha : a < g.n1) (hb : b < g.n2) :
    vget (response F P g x).xprint (g.el (layerIdx g 0) a b) = x (g.el (layerIdx g 0) a b) := by
  rw [response_eq_spec F P g x hd hdx hl ha hb]
  rfl

/-- every other element is `smin(xᵢ, smax{ y_s : s ∈ supports(i) ∩ domain })`, the supports being the first
    `nsampling` offsets of the table applied in the previous layer (print order) -/
theorem overhang_layer_formula (F : Fns α) (P : Par α) (g : Geo) (x : Nat → α) (hd : g.dirLayer < 3)
    (hdx : g.dxLayer = 1 ∨ g.dxLayer = -1) {t a b : Nat} (ht : t + 1 < g.nl) (ha : a < g.n1) (hb : b < g.n2) :
    vget (response F P g x).xprint (g.el (layerIdx g (t+1)) a b) =
      smin F P.eps (x (g.el (layerIdx g (t+1)) a b))
        (smaxOf F P g.ns g.n1 g.n2 (fun a' b' => vget (response F P g x).xprint (g.el (layerIdx g t) a' b')) a b) := by
  rw [response_eq_spec F P g x hd hdx ht ha hb]
  simp only [specY]
  congr 1
  apply smaxOf_congr
  intro a' b' ha' hb'
  rw [response_eq_spec F P g x hd hdx (by omega) ha' hb']

/-- the stored `smax` is that smooth maximum -/
theorem overhang_smax_stored (F : Fns α) (P : Par α) (g : Geo) (x : Nat → α) (hd : g.dirLayer < 3)
    (hdx : g.dxLayer = 1 ∨ g.dxLayer = -1) {t a b : Nat} (ht : t + 1 < g.nl) (ha : a < g.n1) (hb : b < g.n2) :
    vget (response F P g x).smax (g.el (layerIdx g (t+1)) a b) =
      smaxOf F P g.ns g.n1 g.n2 (fun a' b' => vget (response F P g x).xprint (g.el (layerIdx g t) a' b')) a b := by
  rw [response_smax_eq_spec F P g x hd hdx ht ha hb]
  apply smaxOf_congr
  intro a' b' ha' hb'
  rw [response_eq_spec F P g x hd hdx (by omega) ha' hb']

/-- every element of the domain is reached by exactly one `(layer, a, b)` -/
theorem overhang_elements_covered (g : Geo) (hd : g.dirLayer < 3) {e : Nat} (he : e < g.dom.nel) :
    ∃ t a b, t < g.nl ∧ a < g.n1 ∧ b < g.n2 ∧ g.el (layerIdx g t) a b = e := by
  have hl := g.coord_dir_lt hd he
  refine ⟨layerIdx g (g.coord g.dirLayer e), g.coord g.orth1 e, g.coord g.orth2 e, layerIdx_lt g hl,
    g.coord_orth1_lt hd he, g.coord_orth2_lt hd he, ?_⟩
  rw [layerIdx_invol g hl, g.el_coord hd]

end Layers

/-! ## bounds over `ℝ` (`Real.sqrt`, `Real.rpow`, `Real.log` substituted for the function parameters) -/

/-- a non-base element is at most `min(xᵢ, sᵢ) + √ε/2`, `sᵢ` the stored smooth maximum of its supports -/
theorem overhang_overshoot_layer (c : ℝ) (P : Par ℝ) (g : Geo) (x : Nat → ℝ) (hd : g.dirLayer < 3)
    (hdx : g.dxLayer = 1 ∨ g.dxLayer = -1) (hε : 0 ≤ P.eps) {t a b : Nat} (ht : t + 1 < g.nl) (ha : a < g.n1)
    (hb : b < g.n2) :
    vget (response (realFns c) P g x).xprint (g.el (layerIdx g (t+1)) a b) ≤
      min (x (g.el (layerIdx g (t+1)) a b)) (vget (response (realFns c) P g x).smax (g.el (layerIdx g (t+1)) a b))
        + Real.sqrt P.eps / 2 := by
  rw [overhang_layer_formula _ P g x hd hdx ht ha hb, overhang_smax_stored _ P g x hd hdx ht ha hb]
  exact smin_le c P.eps _ _ hε

/-- no element of the domain exceeds its input by more than `√ε/2` -/
theorem overhang_overshoot (c : ℝ) (P : Par ℝ) (g : Geo) (x : Nat → ℝ) (hd : g.dirLayer < 3)
    (hdx : g.dxLayer = 1 ∨ g.dxLayer = -1) (hε : 0 ≤ P.eps) {e : Nat} (he : e < g.dom.nel) :
    vget (response (realFns c) P g x).xprint e ≤ x e + Real.sqrt P.eps / 2 := by
  obtain ⟨t, a, b, ht, ha, hb, rfl⟩ := overhang_elements_covered g hd he
  cases t with
  | zero =>
    rw [overhang_base_layer _ P g x hd hdx ht ha hb]
    have := Real.sqrt_nonneg P.eps
    linarith
  | succ t =>
    have h := overhang_overshoot_layer c P g x hd hdx hε ht ha hb
    have := min_le_left (x (g.el (layerIdx g (t+1)) a b))
      (vget (response (realFns c) P g x).smax (g.el (layerIdx g (t+1)) a b))
    linarith

/-- the smooth minimum never undershoots the true minimum (used for "solid stays solid") -/
theorem overhang_undershoot_layer (c : ℝ) (P : Par ℝ) (g : Geo) (x : Nat → ℝ) (hd : g.dirLayer < 3)
    (hdx : g.dxLayer = 1 ∨ g.dxLayer = -1) (hε : 0 ≤ P.eps) {t a b : Nat} (ht : t + 1 < g.nl) (ha : a < g.n1)
    (hb : b < g.n2) :
    min (x (g.el (layerIdx g (t+1)) a b)) (vget (response (realFns c) P g x).smax (g.el (layerIdx g (t+1)) a b))
      ≤ vget (response (realFns c) P g x).xprint (g.el (layerIdx g (t+1)) a b) := by
  rw [overhang_layer_formula _ P g x hd hdx ht ha hb, overhang_smax_stored _ P g x hd hdx ht ha hb]
  exact le_smin c P.eps _ _ hε

/-- fully supported solid stays solid (inequality form): if `xᵢ ≥ 1` and all in-domain supports are printed with
    density `≥ 1`, then `yᵢ ≥ 1` (and `≤ xᵢ + √ε/2` by `overhang_overshoot`).  Parameter ranges: `0 < ξ₀ < 1`, `p > 0`,
    `ε ≥ 0`, `q = p + log(ns)/log ξ₀ > 0` and `0 < shift ≤ ξ₀` (true for the code's `shift = 100·tiny^(1/p)` unless `p` is
    huge); `backshift` as computed by `set_parameters`.  `2 ≤ ns` says that the offset `(0,0)` is among the supports. -/
theorem overhang_supported_solid (c : ℝ) (P : Par ℝ) (g : Geo) (x : Nat → ℝ) (hd : g.dirLayer < 3)
    (hdx : g.dxLayer = 1 ∨ g.dxLayer = -1) (xi0 : ℝ) (hx0 : 0 < xi0) (hx1 : xi0 < 1) (hp : 0 < P.p) (hε : 0 ≤ P.eps)
    (hns : 2 ≤ g.ns) (hq : P.q = qOf (realFns c) g.ns xi0 P.p) (hq0 : 0 < P.q) (hs0 : 0 < P.shift)
    (hs1 : P.shift ≤ xi0) (hbs : P.backshift = backshiftOf (realFns c) g.ns P.p P.q P.shift)
    {t a b : Nat} (ht : t + 1 < g.nl) (ha : a < g.n1) (hb : b < g.n2)
    (hx : 1 ≤ x (g.el (layerIdx g (t+1)) a b))
    (hsupp : ∀ i, i < g.ns → inRange g.n1 a (offA i) = true → inRange g.n2 b (offB i) = true →
      1 ≤ vget (response (realFns c) P g x).xprint
        (g.el (layerIdx g t) (shiftIdx a (offA i)) (shiftIdx b (offB i)))) :
    1 ≤ vget (response (realFns c) P g x).xprint (g.el (layerIdx g (t+1)) a b) := by
  have h1 := overhang_undershoot_layer c P g x hd hdx hε ht ha hb
  have h2 : 1 ≤ vget (response (realFns c) P g x).smax (g.el (layerIdx g (t+1)) a b) := by
    rw [overhang_smax_stored _ P g x hd hdx ht ha hb]
    exact one_le_smaxOf c P g.ns g.n1 g.n2 _ a b xi0 hns ha hb hx0 hx1 hp hq hq0 hs0 hs1 hbs hsupp
  exact le_trans (le_min hx h2) h1

/-- non-vacuity of the parameter hypotheses: `ξ₀ = 1/2`, `p = 40`, `ns = 3` give `q = 40 - log 3 / log 2 > 0` -/
example : 0 < qOf (realFns 0) 3 (1/2) 40 := by
  simp only [qOf, realFns]
  have h2 : Real.log (1/2) = -Real.log 2 := by rw [one_div, Real.log_inv]
  have h3 : Real.log (1 * ((3 : Nat) : ℝ)) ≤ 2 * Real.log 2 := by
    have : (1 : ℝ) * ((3 : Nat) : ℝ) ≤ 2 ^ (2 : Nat) := by norm_num
    calc Real.log (1 * ((3 : Nat) : ℝ)) ≤ Real.log (2 ^ (2 : Nat)) := Real.log_le_log (by norm_num) this
      _ = 2 * Real.log 2 := by rw [Real.log_pow]; norm_num
  have hl2 : 0 < Real.log 2 := Real.log_pos (by norm_num)
  rw [h2, div_neg]
  have : Real.log (1 * ((3 : Nat) : ℝ)) / Real.log 2 ≤ 2 := by rw [div_le_iff₀ hl2]; linarith
  linarith

/-- unsupported material is removed (inequality form): if all in-domain supports are printed with density in
    `[-shift, δ]`, then `yᵢ ≤ ns^(1/q)·(δ+shift)^(p/q) − backshift + √ε/2`, whatever `xᵢ` is -/
theorem overhang_weakly_supported_bound (c : ℝ) (P : Par ℝ) (g : Geo) (x : Nat → ℝ) (hd : g.dirLayer < 3)
    (hdx : g.dxLayer = 1 ∨ g.dxLayer = -1) (hp : 0 ≤ P.p) (hε : 0 ≤ P.eps) (hq0 : 0 < P.q) (δ : ℝ)
    (hδ : 0 ≤ δ + P.shift) {t a b : Nat} (ht : t + 1 < g.nl) (ha : a < g.n1) (hb : b < g.n2)
    (hsupp : ∀ i, i < g.ns → inRange g.n1 a (offA i) = true → inRange g.n2 b (offB i) = true →
      0 ≤ vget (response (realFns c) P g x).xprint
        (g.el (layerIdx g t) (shiftIdx a (offA i)) (shiftIdx b (offB i))) + P.shift ∧
      vget (response (realFns c) P g x).xprint
        (g.el (layerIdx g t) (shiftIdx a (offA i)) (shiftIdx b (offB i))) ≤ δ) :
    vget (response (realFns c) P g x).xprint (g.el (layerIdx g (t+1)) a b) ≤
      (g.ns : ℝ) ^ (1 / P.q) * (δ + P.shift) ^ (P.p / P.q) - P.backshift + Real.sqrt P.eps / 2 := by
  have h1 := overhang_overshoot_layer c P g x hd hdx hε ht ha hb
  have h2 : vget (response (realFns c) P g x).smax (g.el (layerIdx g (t+1)) a b) ≤
      (g.ns : ℝ) ^ (1 / P.q) * (δ + P.shift) ^ (P.p / P.q) - P.backshift := by
    rw [overhang_smax_stored _ P g x hd hdx ht ha hb]
    exact smaxOf_le c P g.ns g.n1 g.n2 _ a b δ hq0 hp hδ hsupp
  have := min_le_right (x (g.el (layerIdx g (t+1)) a b))
    (vget (response (realFns c) P g x).smax (g.el (layerIdx g (t+1)) a b))
  linarith

/-- … in particular supports `≡ 0` give `yᵢ ≤ 0.05·ns^(1/q)·shift^(p/q) + √ε/2` -/
theorem overhang_unsupported_removed (c : ℝ) (P : Par ℝ) (g : Geo) (x : Nat → ℝ) (hd : g.dirLayer < 3)
    (hdx : g.dxLayer = 1 ∨ g.dxLayer = -1) (hp : 0 ≤ P.p) (hε : 0 ≤ P.eps) (hq0 : 0 < P.q) (hs0 : 0 ≤ P.shift)
    (hbs : P.backshift = backshiftOf (realFns c) g.ns P.p P.q P.shift)
    {t a b : Nat} (ht : t + 1 < g.nl) (ha : a < g.n1) (hb : b < g.n2)
    (hsupp : ∀ i, i < g.ns → inRange g.n1 a (offA i) = true → inRange g.n2 b (offB i) = true →
      vget (response (realFns c) P g x).xprint
        (g.el (layerIdx g t) (shiftIdx a (offA i)) (shiftIdx b (offB i))) = 0) :
    vget (response (realFns c) P g x).xprint (g.el (layerIdx g (t+1)) a b) ≤
      (5 / 100) * ((g.ns : ℝ) ^ (1 / P.q) * P.shift ^ (P.p / P.q)) + Real.sqrt P.eps / 2 := by
  have h := overhang_weakly_supported_bound c P g x hd hdx hp hε hq0 0 (by linarith) ht ha hb
    (fun i hi h1 h2 => by rw [hsupp i hi h1 h2]; exact ⟨by linarith, le_refl _⟩)
  have hb' : P.backshift = (g.ns : ℝ) ^ (1 / P.q) * P.shift ^ (P.p / P.q) * (95 / 100) := by
    rw [hbs]; simp only [backshiftOf, realFns]; norm_num
  rw [hb', zero_add] at h
  linarith

/-- non-vacuity: a 1×2 grid printed in `+y` with a void base element: the hypotheses of
    `overhang_unsupported_removed` hold for the upper element -/
example (c : ℝ) (P : Par ℝ) (x : Nat → ℝ) (hx : x 0 = 0) :
    let g : Geo := ⟨⟨1, 2, 0⟩, 1, 1, 3⟩
    ∀ i, i < g.ns → inRange g.n1 0 (offA i) = true → inRange g.n2 0 (offB i) = true →
      vget (response (realFns c) P g x).xprint (g.el (layerIdx g 0) (shiftIdx 0 (offA i)) (shiftIdx 0 (offB i))) = 0 := by
  intro g i hi h1 h2
  have hi3 : i < 3 := hi
  have hg1 : g.n1 = 1 := by decide
  have hg2 : g.n2 = 1 := by decide
  have ha := shiftIdx_lt h1
  have hb := shiftIdx_lt h2
  rw [overhang_base_layer _ P g x (by decide) (by decide) (by decide) ha hb]
  rw [hg1] at ha; rw [hg2] at hb
  have e1 : shiftIdx 0 (offA i) = 0 := by omega
  have e2 : shiftIdx 0 (offB i) = 0 := by omega
  rw [e1, e2]
  have e3 : g.el (layerIdx g 0) 0 0 = 0 := by decide
  rw [e3]
  exact hx

/-! ## symmetry (any field; `log pow sqrt` arbitrary functions) -/

section Symmetry
variable {α : Type} [Field α]

/-- mirror of the print axis, direction mapped (`+d ↦ -d`): filtering the design reflected along the print axis in
    the opposite direction gives the reflected result -/
theorem overhang_mirror_print_axis (F : Fns α) (P : Par α) (g : Geo) (x x' : Nat → α) (hd : g.dirLayer < 3)
    (hdx : g.dxLayer = 1 ∨ g.dxLayer = -1)
    (hx : ∀ l a b, l < g.nl → a < g.n1 → b < g.n2 → x' (g.el l a b) = x (g.el (Overhang.refl g.nl l) a b)) :
    ∀ l a b, l < g.nl → a < g.n1 → b < g.n2 →
      vget (response F P (flipDir g) x').xprint (g.el l a b) =
        vget (response F P g x).xprint (g.el (Overhang.refl g.nl l) a b) := by
  intro l a b hl ha hb
  have hdx' : (flipDir g).dxLayer = 1 ∨ (flipDir g).dxLayer = -1 := by
    unfold flipDir; rcases hdx with h | h <;> rw [h] <;> simp
  have hli : ∀ t, t < g.nl → layerIdx (flipDir g) t = Overhang.refl g.nl (layerIdx g t) := by
    intro t ht
    have hnl : (flipDir g).nl = g.nl := rfl
    have hdxf : (flipDir g).dxLayer = -g.dxLayer := rfl
    unfold layerIdx Overhang.refl
    rw [hnl, hdxf]
    rcases hdx with h | h <;> rw [h] <;> simp <;> omega
  -- `l` is the `t`-th layer of the flipped sweep
  have ht : layerIdx (flipDir g) l < g.nl := layerIdx_lt (flipDir g) hl
  have e1 : g.el l a b = (flipDir g).el (layerIdx (flipDir g) (layerIdx (flipDir g) l)) a b := by
    rw [layerIdx_invol (flipDir g) hl]; rfl
  have e2 : Overhang.refl g.nl l = layerIdx g (layerIdx (flipDir g) l) := by
    have := hli (layerIdx (flipDir g) l) ht
    rw [layerIdx_invol (flipDir g) hl] at this
    have h3 := layerIdx_lt g ht
    unfold Overhang.refl at this ⊢; omega
  rw [e1, response_eq_spec F P (flipDir g) x' hd hdx' ht ha hb, e2, response_eq_spec F P g x hd hdx ht ha hb]
  apply specY_congr F P g.ns g.n1 g.n2 _ _ g.nl _ _ ht a b ha hb
  intro t a' b' ht' ha' hb'
  show x' (g.el (layerIdx (flipDir g) t) a' b') = x (g.el (layerIdx g t) a' b')
  rw [hx _ a' b' (layerIdx_lt (flipDir g) ht') ha' hb', hli t ht', refl_refl (layerIdx_lt g ht')]

/-- mirror of the first in-layer axis (direction unchanged) -/
theorem overhang_mirror_orth1 (F : Fns α) (P : Par α) (g : Geo) (x x' : Nat → α) (hd : g.dirLayer < 3)
    (hdx : g.dxLayer = 1 ∨ g.dxLayer = -1) (hns : g.ns = 3 ∨ g.ns = 5 ∨ g.ns = 9)
    (hx : ∀ l a b, l < g.nl → a < g.n1 → b < g.n2 → x' (g.el l a b) = x (g.el l (Overhang.refl g.n1 a) b)) :
    ∀ l a b, l < g.nl → a < g.n1 → b < g.n2 →
      vget (response F P g x').xprint (g.el l a b) = vget (response F P g x).xprint (g.el l (Overhang.refl g.n1 a) b) := by
  intro l a b hl ha hb
  have ht : layerIdx g l < g.nl := layerIdx_lt g hl
  rw [← layerIdx_invol g hl, response_eq_spec F P g x' hd hdx ht ha hb,
    response_eq_spec F P g x hd hdx ht (refl_lt ha) hb]
  apply specY_refl1 F P g.ns g.n1 g.n2 hns _ _ g.nl _ _ ht a b ha hb
  intro t a' b' ht' ha' hb'
  exact hx _ a' b' (layerIdx_lt g ht') ha' hb'

/-- mirror of the second in-layer axis (direction unchanged) -/
theorem overhang_mirror_orth2 (F : Fns α) (P : Par α) (g : Geo) (x x' : Nat → α) (hd : g.dirLayer < 3)
    (hdx : g.dxLayer = 1 ∨ g.dxLayer = -1) (hns : g.ns = 3 ∨ g.ns = 5 ∨ g.ns = 9)
    (hx : ∀ l a b, l < g.nl → a < g.n1 → b < g.n2 → x' (g.el l a b) = x (g.el l a (Overhang.refl g.n2 b))) :
    ∀ l a b, l < g.nl → a < g.n1 → b < g.n2 →
      vget (response F P g x').xprint (g.el l a b) = vget (response F P g x).xprint (g.el l a (Overhang.refl g.n2 b)) := by
  intro l a b hl ha hb
  have ht : layerIdx g l < g.nl := layerIdx_lt g hl
  rw [← layerIdx_invol g hl, response_eq_spec F P g x' hd hdx ht ha hb,
    response_eq_spec F P g x hd hdx ht ha (refl_lt hb)]
  apply specY_refl2 F P g.ns g.n1 g.n2 hns _ _ g.nl _ _ ht a b ha hb
  intro t a' b' ht' ha' hb'
  exact hx _ a' b' (layerIdx_lt g ht') ha' hb'

/-- reflecting ANY of the three axes (`axis = 0` print axis, `1`, `2` the in-layer axes), the direction mapped:
    the filtered mirrored design is the mirrored filtered design -/
theorem overhang_mirror (F : Fns α) (P : Par α) (g : Geo) (x x' : Nat → α) (hd : g.dirLayer < 3)
    (hdx : g.dxLayer = 1 ∨ g.dxLayer = -1) (hns : g.ns = 3 ∨ g.ns = 5 ∨ g.ns = 9) (axis : Fin 3)
    (hx : ∀ l a b, l < g.nl → a < g.n1 → b < g.n2 →
      x' (g.el l a b) = x (g.el (if axis = 0 then Overhang.refl g.nl l else l) (if axis = 1 then Overhang.refl g.n1 a else a)
        (if axis = 2 then Overhang.refl g.n2 b else b))) :
    ∀ l a b, l < g.nl → a < g.n1 → b < g.n2 →
      vget (response F P (if axis = 0 then flipDir g else g) x').xprint (g.el l a b) =
        vget (response F P g x).xprint (g.el (if axis = 0 then Overhang.refl g.nl l else l)
          (if axis = 1 then Overhang.refl g.n1 a else a) (if axis = 2 then Overhang.refl g.n2 b else b)) := by
  fin_cases axis
  · simpa using overhang_mirror_print_axis F P g x x' hd hdx (by simpa using hx)
  · simpa using overhang_mirror_orth1 F P g x x' hd hdx hns (by simpa using hx)
  · simpa using overhang_mirror_orth2 F P g x x' hd hdx hns (by simpa using hx)

/-- exchanging the two in-layer axes (3-D, 5 or 9 supports): `g'` is the same filter on the domain with the two
    in-layer extents exchanged; the filtered swapped design is the swapped filtered design -/
theorem overhang_axis_swap (F : Fns α) (P : Par α) (g g' : Geo) (x x' : Nat → α) (hd : g.dirLayer < 3)
    (hd' : g'.dirLayer < 3) (hdx : g.dxLayer = 1 ∨ g.dxLayer = -1) (hns : g.ns = 5 ∨ g.ns = 9)
    (hdxe : g'.dxLayer = g.dxLayer) (hnse : g'.ns = g.ns) (hnl : g'.nl = g.nl) (hn1 : g'.n1 = g.n2)
    (hn2 : g'.n2 = g.n1)
    (hx : ∀ l a b, l < g.nl → a < g.n2 → b < g.n1 → x' (g'.el l a b) = x (g.el l b a)) :
    ∀ l a b, l < g.nl → a < g.n2 → b < g.n1 →
      vget (response F P g' x').xprint (g'.el l a b) = vget (response F P g x).xprint (g.el l b a) := by
  intro l a b hl ha hb
  have hli : ∀ t, layerIdx g' t = layerIdx g t := by intro t; unfold layerIdx; rw [hdxe, hnl]
  have key : ∀ t, t < g.nl → vget (response F P g' x').xprint (g'.el (layerIdx g' t) a b) =
      vget (response F P g x).xprint (g.el (layerIdx g t) b a) := by
    intro t ht
    rw [response_eq_spec F P g' x' hd' (by rw [hdxe]; exact hdx) (by rw [hnl]; exact ht)
        (by rw [hn1]; exact ha) (by rw [hn2]; exact hb),
      response_eq_spec F P g x hd hdx ht hb ha, hnse, hn1, hn2]
    apply specY_swap F P g.ns g.n1 g.n2 hns _ _ g.nl _ _ ht a b ha hb
    intro t' a' b' ht' ha' hb'
    show x' (g'.el (layerIdx g' t') a' b') = x (g.el (layerIdx g t') b' a')
    rw [hli]
    exact hx _ a' b' (layerIdx_lt g ht') ha' hb'
  have := key (layerIdx g l) (layerIdx_lt g hl)
  rwa [hli, layerIdx_invol g hl] at this

/-- RELABELLING (the general form behind the symmetry statements; in-layer axes in the same order): two sweep geometries
    with the same number of layers, sweep sign, number of supports and in-layer extents, applied to designs that agree
    through the element maps `el`, give results that agree through the element maps.  (`overhang_axis_swap` is the
    companion with the in-layer extents exchanged.) -/
theorem overhang_relabel (F : Fns α) (P : Par α) (g g' : Geo) (x x' : Nat → α) (hd : g.dirLayer < 3)
    (hd' : g'.dirLayer < 3) (hdx : g.dxLayer = 1 ∨ g.dxLayer = -1)
    (hdxe : g'.dxLayer = g.dxLayer) (hnse : g'.ns = g.ns) (hnl : g'.nl = g.nl) (hn1 : g'.n1 = g.n1)
    (hn2 : g'.n2 = g.n2)
    (hx : ∀ l a b, l < g.nl → a < g.n1 → b < g.n2 → x' (g'.el l a b) = x (g.el l a b)) :
    ∀ l a b, l < g.nl → a < g.n1 → b < g.n2 →
      vget (response F P g' x').xprint (g'.el l a b) = vget (response F P g x).xprint (g.el l a b) :=
  response_relabel F P g g' x x' hd hd' hdx hdxe hnse hnl hn1 hn2 hx

/-- EVERY PERMUTATION `π` OF THE DOMAIN AXES, every print axis `d` (x, y, z) and sign `s` (±), 2-D and 3-D.
    `dom'` is `dom` with axis `i` relabelled `π i` (`size'[π i] = size[i]`; same dimension; a 2-D domain keeps its `z`),
    the filter on `dom'` prints along `π d` with the same sign and number of supports, and `x'` is the design `x` in
    the relabelled coordinates: the element at Cartesian position `c` of `dom` is the element at `c ∘ π⁻¹` of `dom'`.
    Then the filtered relabelled design is the relabelled filtered design, element by element.
    (`⟨dom, d, s, ns⟩` is the geometry `_response` derives from the stored direction `s·e_d`, see
    `overhang_prepare_axis`.) -/
theorem overhang_axis_permutation (F : Fns α) (P : Par α) (dom dom' : Dom) (π : Equiv.Perm (Fin 3)) (d : Fin 3)
    (s : Int) (ns : Nat) (x x' : Nat → α) (hs : s = 1 ∨ s = -1)
    (hns : (dom.dim = 2 ∧ ns = 3) ∨ (dom.dim = 3 ∧ (ns = 5 ∨ ns = 9)))
    (hdim : dom'.dim = dom.dim) (h2 : dom.dim = 2 → π 2 = 2)
    (hsize : ∀ i, dsize dom' (π i) = dsize dom i)
    (hx : ∀ c : Fin 3 → Nat, (∀ i, c i < dsize dom i) → x' (elemAt dom' (c ∘ π.symm)) = x (elemAt dom c)) :
    ∀ c : Fin 3 → Nat, (∀ i, c i < dsize dom i) →
      vget (response F P ⟨dom', (π d).val, s, ns⟩ x').xprint (elemAt dom' (c ∘ π.symm)) =
        vget (response F P ⟨dom, d.val, s, ns⟩ x).xprint (elemAt dom c) :=
  response_axis_perm F P ⟨dom, d.val, s, ns⟩ ⟨dom', (π d).val, s, ns⟩ π d x x' rfl rfl hs rfl rfl hns hdim h2 hsize hx

/-- CROSS-AXIS SWAP: exchanging any two axes `u`, `v` of the domain — in particular the print axis with another axis
    (`d = u`: a design printed along `u` versus the transposed design on the transposed grid printed along `v`) -/
theorem overhang_axis_swap_cross (F : Fns α) (P : Par α) (dom dom' : Dom) (u v d : Fin 3)
    (s : Int) (ns : Nat) (x x' : Nat → α) (hs : s = 1 ∨ s = -1)
    (hns : (dom.dim = 2 ∧ ns = 3) ∨ (dom.dim = 3 ∧ (ns = 5 ∨ ns = 9)))
    (hdim : dom'.dim = dom.dim) (h2 : dom.dim = 2 → u ≠ 2 ∧ v ≠ 2)
    (hsize : ∀ i, dsize dom' (Equiv.swap u v i) = dsize dom i)
    (hx : ∀ c : Fin 3 → Nat, (∀ i, c i < dsize dom i) → x' (elemAt dom' (c ∘ Equiv.swap u v)) = x (elemAt dom c)) :
    ∀ c : Fin 3 → Nat, (∀ i, c i < dsize dom i) →
      vget (response F P ⟨dom', (Equiv.swap u v d).val, s, ns⟩ x').xprint (elemAt dom' (c ∘ Equiv.swap u v)) =
        vget (response F P ⟨dom, d.val, s, ns⟩ x).xprint (elemAt dom c) := by
  have h := overhang_axis_permutation F P dom dom' (Equiv.swap u v) d s ns x x' hs hns hdim
    (fun h => Equiv.swap_apply_of_ne_of_ne (Ne.symm (h2 h).1) (Ne.symm (h2 h).2)) hsize
  rw [Equiv.symm_swap] at h
  exact h hx

/-- … written out for x ↔ y (2-D and 3-D): the design on the `nx × ny (× nz)` grid printed along `±x` / `±y` / `±z`
    versus the transposed design on the `ny × nx (× nz)` grid printed along `±y` / `±x` / `±z` -/
theorem overhang_axis_swap_cross_xy (F : Fns α) (P : Par α) (nx ny nz : Nat) (d : Fin 3) (s : Int) (ns : Nat)
    (x x' : Nat → α) (hs : s = 1 ∨ s = -1)
    (hns : ((⟨nx, ny, nz⟩ : Dom).dim = 2 ∧ ns = 3) ∨ ((⟨nx, ny, nz⟩ : Dom).dim = 3 ∧ (ns = 5 ∨ ns = 9)))
    (hx : ∀ i j k, i < nx → j < ny → k < max nz 1 →
      x' ((⟨ny, nx, nz⟩ : Dom).elemNumber j i k) = x ((⟨nx, ny, nz⟩ : Dom).elemNumber i j k)) :
    ∀ i j k, i < nx → j < ny → k < max nz 1 →
      vget (response F P ⟨⟨ny, nx, nz⟩, (Equiv.swap 0 1 d).val, s, ns⟩ x').xprint ((⟨ny, nx, nz⟩ : Dom).elemNumber j i k) =
        vget (response F P ⟨⟨nx, ny, nz⟩, d.val, s, ns⟩ x).xprint ((⟨nx, ny, nz⟩ : Dom).elemNumber i j k) := by
  intro i j k hi hj hk
  have hsz : ∀ a : Fin 3, dsize ⟨ny, nx, nz⟩ (Equiv.swap 0 1 a) = dsize ⟨nx, ny, nz⟩ a := by
    intro a; fin_cases a <;> rfl
  have hb : ∀ a : Fin 3, vec3 i j k a < dsize ⟨nx, ny, nz⟩ a := by
    intro a; fin_cases a
    · exact hi
    · exact hj
    · exact hk
  exact overhang_axis_swap_cross F P ⟨nx, ny, nz⟩ ⟨ny, nx, nz⟩ 0 1 d s ns x x' hs hns rfl (fun _ => by decide) hsz
    (fun c hc => hx (c 0) (c 1) (c 2) (hc 0) (hc 1) (hc 2)) (vec3 i j k) hb

/-- … x ↔ z (3-D): `nx × ny × nz` printed along `±x` / `±y` / `±z` versus `nz × ny × nx` printed along `±z` / `±y` / `±x` -/
theorem overhang_axis_swap_cross_xz (F : Fns α) (P : Par α) (nx ny nz : Nat) (d : Fin 3) (s : Int) (ns : Nat)
    (x x' : Nat → α) (hs : s = 1 ∨ s = -1) (hz : 0 < nz) (hns : ns = 5 ∨ ns = 9)
    (hx : ∀ i j k, i < nx → j < ny → k < nz →
      x' ((⟨nz, ny, nx⟩ : Dom).elemNumber k j i) = x ((⟨nx, ny, nz⟩ : Dom).elemNumber i j k)) :
    ∀ i j k, i < nx → j < ny → k < nz →
      vget (response F P ⟨⟨nz, ny, nx⟩, (Equiv.swap 0 2 d).val, s, ns⟩ x').xprint ((⟨nz, ny, nx⟩ : Dom).elemNumber k j i) =
        vget (response F P ⟨⟨nx, ny, nz⟩, d.val, s, ns⟩ x).xprint ((⟨nx, ny, nz⟩ : Dom).elemNumber i j k) := by
  intro i j k hi hj hk
  have hx0 : 0 < nx := by omega
  have hd3 : (⟨nx, ny, nz⟩ : Dom).dim = 3 := by unfold Dom.dim; rw [if_neg (by show nz ≠ 0; omega)]
  have hd3' : (⟨nz, ny, nx⟩ : Dom).dim = 3 := by unfold Dom.dim; rw [if_neg (by show nx ≠ 0; omega)]
  have mz : max nz 1 = nz := by omega
  have mx : max nx 1 = nx := by omega
  have hsz : ∀ a : Fin 3, dsize ⟨nz, ny, nx⟩ (Equiv.swap 0 2 a) = dsize ⟨nx, ny, nz⟩ a := by
    intro a; fin_cases a
    · show max nx 1 = nx; exact mx
    · rfl
    · show nz = max nz 1; exact mz.symm
  have hb : ∀ a : Fin 3, vec3 i j k a < dsize ⟨nx, ny, nz⟩ a := by
    intro a; fin_cases a
    · exact hi
    · exact hj
    · show k < max nz 1; omega
  exact overhang_axis_swap_cross F P ⟨nx, ny, nz⟩ ⟨nz, ny, nx⟩ 0 2 d s ns x x' hs (Or.inr ⟨hd3, hns⟩)
    (by rw [hd3, hd3']) (fun h => by rw [hd3] at h; omega) hsz
    (fun c hc => hx (c 0) (c 1) (c 2) (hc 0) (hc 1) (by have := hc 2; change c 2 < max nz 1 at this; omega)) (vec3 i j k) hb

/-- … y ↔ z (3-D): `nx × ny × nz` printed along `±x` / `±y` / `±z` versus `nx × nz × ny` printed along `±x` / `±z` / `±y` -/
theorem overhang_axis_swap_cross_yz (F : Fns α) (P : Par α) (nx ny nz : Nat) (d : Fin 3) (s : Int) (ns : Nat)
    (x x' : Nat → α) (hs : s = 1 ∨ s = -1) (hz : 0 < nz) (hns : ns = 5 ∨ ns = 9)
    (hx : ∀ i j k, i < nx → j < ny → k < nz →
      x' ((⟨nx, nz, ny⟩ : Dom).elemNumber i k j) = x ((⟨nx, ny, nz⟩ : Dom).elemNumber i j k)) :
    ∀ i j k, i < nx → j < ny → k < nz →
      vget (response F P ⟨⟨nx, nz, ny⟩, (Equiv.swap 1 2 d).val, s, ns⟩ x').xprint ((⟨nx, nz, ny⟩ : Dom).elemNumber i k j) =
        vget (response F P ⟨⟨nx, ny, nz⟩, d.val, s, ns⟩ x).xprint ((⟨nx, ny, nz⟩ : Dom).elemNumber i j k) := by
  intro i j k hi hj hk
  have hy0 : 0 < ny := by omega
  have hd3 : (⟨nx, ny, nz⟩ : Dom).dim = 3 := by unfold Dom.dim; rw [if_neg (by show nz ≠ 0; omega)]
  have hd3' : (⟨nx, nz, ny⟩ : Dom).dim = 3 := by unfold Dom.dim; rw [if_neg (by show ny ≠ 0; omega)]
  have mz : max nz 1 = nz := by omega
  have my : max ny 1 = ny := by omega
  have hsz : ∀ a : Fin 3, dsize ⟨nx, nz, ny⟩ (Equiv.swap 1 2 a) = dsize ⟨nx, ny, nz⟩ a := by
    intro a; fin_cases a
    · rfl
    · show max ny 1 = ny; exact my
    · show nz = max nz 1; exact mz.symm
  have hb : ∀ a : Fin 3, vec3 i j k a < dsize ⟨nx, ny, nz⟩ a := by
    intro a; fin_cases a
    · exact hi
    · exact hj
    · show k < max nz 1; omega
  exact overhang_axis_swap_cross F P ⟨nx, ny, nz⟩ ⟨nx, nz, ny⟩ 1 2 d s ns x x' hs (Or.inr ⟨hd3, hns⟩)
    (by rw [hd3, hd3']) (fun h => by rw [hd3] at h; omega) hsz
    (fun c hc => hx (c 0) (c 1) (c 2) (hc 0) (hc 1) (by have := hc 2; change c 2 < max nz 1 at this; omega)) (vec3 i j k) hb

end Symmetry

/-- non-vacuity of `overhang_axis_swap`: a 2×3×4 domain printed in `+x` and the 2×4×3 domain -/
example : let g : Geo := ⟨⟨2, 3, 4⟩, 0, 1, 5⟩
    let g' : Geo := ⟨⟨2, 4, 3⟩, 0, 1, 5⟩
    g'.nl = g.nl ∧ g'.n1 = g.n2 ∧ g'.n2 = g.n1 ∧ g.n1 = 3 ∧ g.n2 = 4 ∧ g'.el 1 3 2 = 23 ∧ g.el 1 2 3 = 23 := by decide

/-- non-vacuity of the mirror theorems: the mirrored field of a 2×2 design -/
example : let g : Geo := ⟨⟨2, 2, 0⟩, 1, 1, 3⟩
    g.nl = 2 ∧ g.n1 = 2 ∧ g.n2 = 1 ∧ g.el 0 1 0 = 1 ∧ g.el (Overhang.refl g.nl 0) 1 0 = 3 ∧ (flipDir g).dxLayer = -1 := by decide

/-! ## for property C01: the reverse sweep `_sensitivity` -/

section Sens
variable {α : Type} [Add α] [Sub α] [Mul α] [Div α] [Neg α] [OfNat α 0] [OfNat α 1] [OfNat α 2]

/-- one layer along the print axis: the seed is returned unchanged (as a copy) -/
theorem overhang_sens_one_layer (F : Fns α) (P : Par α) (g : Geo) (x : Nat → α) (rs : State α) (seed : Nat → α)
    (hnl : g.nl < 2) {e : Nat} (he : e < g.dom.nel) :
    vget (sensitivity F P g x rs seed) e = seed e := by
  rw [sensitivity_one_layer F P g x rs seed hnl, vget_vtab_lt _ he]

/-- the loop structure of `_sensitivity` (any scalar type): the code processes the layers `nl-1, …, 1` in reverse print
    order by `sensStep` on a copy of the seed and then transfers the base layer.  (The name is historical and is kept
    because property C01 lists it; the full statement is `overhang_sens_is_backprop` below.) -/
theorem overhang_sens_is_backprop_partial (F : Fns α) (P : Par α) (g : Geo) (x : Nat → α) (rs : State α)
    (seed : Nat → α) (hdx : g.dxLayer = 1 ∨ g.dxLayer = -1) (hnl : 2 ≤ g.nl) :
    sensitivity F P g x rs seed =
      let st := iterBack F P g x rs (g.nl - 1) (g.nl - 1) ⟨vtab g.dom.nel seed, vtab g.dom.nel (fun _ => 0)⟩
      vtab g.dom.nel (fun e => if g.inLayer (layerIdx g 0) e then vget st.dxprint e else vget st.dx e) :=
  sensitivity_eq_iterBack F P g x rs seed hdx hnl

/-- one reverse pass on the current layer: `dx[els] = dxprint/2 + dfdr1`, other layers keep their `dx` -/
theorem overhang_sens_step_current (F : Fns α) (P : Par α) (g : Geo) (x : Nat → α) (rs : State α) (st : SState α)
    (hd : g.dirLayer < 3) {ind lp l a b : Nat} (hl : l < g.nl) (ha : a < g.n1) (hb : b < g.n2) :
    vget (sensStep F P g x rs st ind lp).dx (g.el l a b) =
      if l = ind then dsminDx F P.eps (x (g.el l a b)) (vget rs.smax (g.el l a b)) (vget st.dxprint (g.el l a b))
      else vget st.dx (g.el l a b) :=
  sensStep_dx_el F P g x rs st hd hl ha hb

/-- one reverse pass on the supporting layer: element `(lp, a', b')` accumulates, in the order of the offset table,
    `c(ind, a'-o_a, b'-o_b) · (xprint + shift)^(p-1)` from every in-layer element it supports -/
theorem overhang_sens_step_support (F : Fns α) (P : Par α) (g : Geo) (x : Nat → α) (rs : State α) (st : SState α)
    (hd : g.dirLayer < 3) {ind lp a' b' : Nat} (hi : ind < g.nl) (hl : lp < g.nl) (ha : a' < g.n1) (hb : b' < g.n2) :
    vget (sensStep F P g x rs st ind lp).dxprint (g.el lp a' b') =
      foldRange g.ns (fun v i =>
        if inRange g.n1 a' (-(offA i)) && inRange g.n2 b' (-(offB i)) then
          v + cAt F P g x rs st ind (shiftIdx a' (-(offA i))) (shiftIdx b' (-(offB i))) *
            F.pow (vget rs.xprint (g.el lp a' b') + P.shift) (P.p - 1)
        else v) (vget st.dxprint (g.el lp a' b')) :=
  sensStep_dxprint_el F P g x rs st hd hi hl ha hb

end Sens

/-- atom 1 (`Real.hasDerivAt_rpow_const`): `v ↦ (v + shift)^p` -/
theorem overhang_atom_shift_pow (v shift p : ℝ) (h : v + shift ≠ 0 ∨ 1 ≤ p) :
    HasDerivAt (fun v : ℝ => (v + shift) ^ p) (p * (v + shift) ^ (p - 1)) v :=
  hasDerivAt_shift_pow v shift p h

/-- atom 2: `k ↦ k^(1/q) - backshift` with the code's derivative `k^((1/q)-1)/q`, and the code's recomputation of
    `keep` from the stored smooth maximum -/
theorem overhang_atom_root (k q backshift : ℝ) (hk : 0 < k) (hq : q ≠ 0) :
    HasDerivAt (fun k : ℝ => k ^ (1 / q) - backshift) (k ^ (1 / q - 1) / q) k ∧
    ((k ^ (1 / q) - backshift) + backshift) ^ q = k :=
  ⟨hasDerivAt_root k q backshift hk.ne', keep_recomputed k q backshift hk.le hq⟩

/-- atom 3 (`HasDerivAt.sqrt`): the smooth minimum in both arguments; the code's `dx`, `dfdsmax` are seed × these -/
theorem overhang_atom_smin (c ε x s dy : ℝ) (h : (x - s) * (x - s) + ε ≠ 0) :
    HasDerivAt (fun x : ℝ => dy * smin (realFns c) ε x s) (dsminDx (realFns c) ε x s dy) x ∧
    HasDerivAt (fun s : ℝ => dy * smin (realFns c) ε x s) (dsminDs (realFns c) ε x s dy) s := by
  rw [dsminDx_eq, dsminDs_eq]
  exact ⟨(hasDerivAt_smin_x c ε x s h).const_mul dy, (hasDerivAt_smin_s c ε x s h).const_mul dy⟩

example : ((1 : ℝ) - 0) * (1 - 0) + 0 ≠ 0 := by norm_num

/-- the three atoms composed along one support path: the increment the code adds to `dxprint` of a support is the seed
    times the partial derivative of the supported element's printed density with respect to that support -/
theorem overhang_sens_support_path (c : ℝ) (P : Par ℝ) (x K v dy : ℝ) (hK : 0 ≤ K) (hv : 0 < v + P.shift)
    (hq : P.q ≠ 0)
    (hne : (x - ((K + (v + P.shift) ^ P.p) ^ (1 / P.q) - P.backshift)) *
      (x - ((K + (v + P.shift) ^ P.p) ^ (1 / P.q) - P.backshift)) + P.eps ≠ 0) :
    HasDerivAt (fun v : ℝ => dy * smin (realFns c) P.eps x ((K + (v + P.shift) ^ P.p) ^ (1 / P.q) - P.backshift))
      (cOf (realFns c) P ((K + (v + P.shift) ^ P.p) ^ (1 / P.q) - P.backshift)
        (dsminDs (realFns c) P.eps x ((K + (v + P.shift) ^ P.p) ^ (1 / P.q) - P.backshift) dy) *
        (v + P.shift) ^ (P.p - 1)) v :=
  support_path_hasDerivAt c P x K v dy hK hv hq hne

/-- non-vacuity: `ε > 0` makes the radicand non-zero whatever `x`, `K`, `v` are -/
example (P : Par ℝ) (x s : ℝ) (hε : 0 < P.eps) : (x - s) * (x - s) + P.eps ≠ 0 := by
  have := mul_self_nonneg (x - s)
  linarith

/-! ## for property C01: `_sensitivity` is the derivative of `_response` -/

/-- ALGEBRAIC form (transposed Jacobian chain): in layer coordinates the code's reverse sweep equals the reverse
    recursion `back` — seed of the top layer times `∂smin/∂x`, then for each layer below the running adjoint plus the
    transposed layer Jacobian `zOf` (entries `β·γ` = the atom derivative formulas) applied to the adjoint of the layer
    above — and `back` is the adjoint of the forward tangent recursion `tanY` (`back_adjoint`, by the gather/scatter
    re-indexing over the support table): pairing the sensitivities with any direction `v` equals pairing the seed with
    the tangent of the response in direction `v`. -/
theorem overhang_sens_is_transposed_jacobian_chain (c : ℝ) (P : Par ℝ) (g : Geo) (x v w : Nat → ℝ)
    (hd : g.dirLayer < 3) (hdx : g.dxLayer = 1 ∨ g.dxLayer = -1) :
    (∀ t a b, t < g.nl → a < g.n1 → b < g.n2 →
      vget (sensitivity (realFns c) P g x (response (realFns c) P g x) w) (g.el (layerIdx g t) a b) =
        back g.ns g.n1 g.n2 (coefSpec c P g.ns g.n1 g.n2 (layered g x)) (g.nl - 1) (layered g w) t a b) ∧
    dot g.dom.nel (vget (sensitivity (realFns c) P g x (response (realFns c) P g x) w)) v =
      dot g.dom.nel w (tanFlat c P g x v) :=
  ⟨fun _ _ _ ht ha hb => lay_sensitivity c P g x w hd hdx ht ha hb, (sens_pairing c P g x v w hd hdx).symm⟩

/-- every entry of the response is differentiable along `x + τ v`; its derivative is the forward tangent recursion
    whose coefficients are the three scalar atoms (chain rule per layer) -/
theorem overhang_response_hasDerivAt (c : ℝ) (P : Par ℝ) (g : Geo) (x v : Nat → ℝ)
    (hd : g.dirLayer < 3) (hdx : g.dxLayer = 1 ∨ g.dxLayer = -1) (hns : 2 ≤ g.ns) (hq : P.q ≠ 0)
    (hpos : ∀ e, e < g.dom.nel → 0 < vget (response (realFns c) P g x).xprint e + P.shift)
    (hrad : ∀ t a b, t + 1 < g.nl → a < g.n1 → b < g.n2 →
      (x (g.el (layerIdx g (t+1)) a b) - vget (response (realFns c) P g x).smax (g.el (layerIdx g (t+1)) a b)) *
      (x (g.el (layerIdx g (t+1)) a b) - vget (response (realFns c) P g x).smax (g.el (layerIdx g (t+1)) a b))
        + P.eps ≠ 0)
    {e : Nat} (he : e < g.dom.nel) :
    HasDerivAt (fun τ : ℝ => vget (response (realFns c) P g (fun e => x e + τ * v e)).xprint e)
      (tanFlat c P g x v e) 0 :=
  response_entry_hasDerivAt c P g x v hd hdx hns hq hpos hrad he

/-- FULL STATEMENT (closes `overhang_sens_is_backprop_partial`): for every grid, axis direction, nsampling, input `x`,
    seed `w` and direction `v`, the pairing of the code's reverse sweep with `v` is the derivative of
    `τ ↦ Σ_e w_e · response(x + τ v)_e` at `0`.  Side conditions (differentiability of `rpow` and `sqrt`):
    every printed density satisfies `y_e + shift > 0`, the radicand of every smooth minimum is non-zero
    (automatic for `ε > 0`, see the corollary), `q ≠ 0`, and the offset `(0,0)` is among the supports (`2 ≤ ns`). -/
theorem overhang_sens_is_backprop (c : ℝ) (P : Par ℝ) (g : Geo) (x v w : Nat → ℝ)
    (hd : g.dirLayer < 3) (hdx : g.dxLayer = 1 ∨ g.dxLayer = -1) (hns : 2 ≤ g.ns) (hq : P.q ≠ 0)
    (hpos : ∀ e, e < g.dom.nel → 0 < vget (response (realFns c) P g x).xprint e + P.shift)
    (hrad : ∀ t a b, t + 1 < g.nl → a < g.n1 → b < g.n2 →
      (x (g.el (layerIdx g (t+1)) a b) - vget (response (realFns c) P g x).smax (g.el (layerIdx g (t+1)) a b)) *
      (x (g.el (layerIdx g (t+1)) a b) - vget (response (realFns c) P g x).smax (g.el (layerIdx g (t+1)) a b))
        + P.eps ≠ 0) :
    HasDerivAt (fun τ : ℝ => dot g.dom.nel w (vget (response (realFns c) P g (fun e => x e + τ * v e)).xprint))
      (dot g.dom.nel (vget (sensitivity (realFns c) P g x (response (realFns c) P g x) w)) v) 0 :=
  sensitivity_hasDerivAt c P g x v w hd hdx hns hq hpos hrad

/-- … with `ε > 0` the radicand condition is automatic -/
theorem overhang_sens_is_backprop_eps_pos (c : ℝ) (P : Par ℝ) (g : Geo) (x v w : Nat → ℝ)
    (hd : g.dirLayer < 3) (hdx : g.dxLayer = 1 ∨ g.dxLayer = -1) (hns : 2 ≤ g.ns) (hq : P.q ≠ 0) (hε : 0 < P.eps)
    (hpos : ∀ e, e < g.dom.nel → 0 < vget (response (realFns c) P g x).xprint e + P.shift) :
    HasDerivAt (fun τ : ℝ => dot g.dom.nel w (vget (response (realFns c) P g (fun e => x e + τ * v e)).xprint))
      (dot g.dom.nel (vget (sensitivity (realFns c) P g x (response (realFns c) P g x) w)) v) 0 := by
  apply overhang_sens_is_backprop c P g x v w hd hdx hns hq hpos
  intro t a b _ _ _
  have := mul_self_nonneg
    (x (g.el (layerIdx g (t+1)) a b) - vget (response (realFns c) P g x).smax (g.el (layerIdx g (t+1)) a b))
  linarith

/-- non-vacuity of the side conditions: on a 1×2 grid printed in `+y` with `shift > 0`, a non-negative base element
    satisfies `y + shift > 0` (the base layer is the input) -/
example (c : ℝ) (P : Par ℝ) (x : Nat → ℝ) (hs : 0 < P.shift) (hx : 0 ≤ x 0) :
    let g : Geo := ⟨⟨1, 2, 0⟩, 1, 1, 3⟩
    0 < vget (response (realFns c) P g x).xprint (g.el (layerIdx g 0) 0 0) + P.shift := by
  intro g
  rw [overhang_base_layer _ P g x (by decide) (by decide) (by decide) (by decide) (by decide)]
  have e3 : g.el (layerIdx g 0) 0 0 = 0 := by decide
  rw [e3]; linarith

/-! ## `_prepare` fixes the geometry -/

/-- a successful `_prepare` (any linearly ordered field, any `log pow sqrt`) yields a sweep along one of the three axes
    with `dx_layer = ±1` and 3, 5 or 9 supports — the hypotheses `hd`, `hdx`, `hns` of all theorems above -/
theorem overhang_prepare_geo {α : Type} [Field α] [LinearOrder α] [IsStrictOrderedRing α]
    (F : Fns α) (dom : Dom) (arg : DirArg α) (xi0 p eps : α) (ns : Option Int) (pr : Prepared α)
    (h : prepare F dom arg xi0 p eps ns = .ok pr) :
    (geoOf pr).dirLayer < 3 ∧ ((geoOf pr).dxLayer = 1 ∨ (geoOf pr).dxLayer = -1) ∧
    ((geoOf pr).ns = 3 ∨ (geoOf pr).ns = 5 ∨ (geoOf pr).ns = 9) ∧ (geoOf pr).dom = dom :=
  prepare_ok_geo F dom arg xi0 p eps ns pr h

/-- non-vacuity: over `ℚ` (with `sqrt 1 = 1`) the call `direction="y-"` on a 2×2 domain is accepted -/
example : (prepare (α := ℚ) ⟨id, fun a _ => a, id, 0⟩ ⟨2, 2, 0⟩ (.str ['y', '-']) (1/2) 40 (1/10000) none).isOk
    = true := by decide +kernel

/-- `dir_layer` computed from any stored direction is one of the three axes, `dx_layer ∈ {-1, 0, 1}` -/
theorem overhang_geo_axis {α : Type} [LT α] [DecidableLT α] [Neg α] [OfNat α 0] (pr : Prepared α) :
    (geoOf pr).dirLayer < 3 ∧ ((geoOf pr).dxLayer = 1 ∨ (geoOf pr).dxLayer = -1 ∨ (geoOf pr).dxLayer = 0) := by
  constructor
  · simp only [geoOf, argmax3]
    split <;> split <;> omega
  · simp only [geoOf, signInt]
    split
    · right; left; rfl
    · split
      · left; rfl
      · right; right; rfl

/-- non-vacuity: a 3×2 grid printed in direction `-y` (`dir_layer = 1`, `dx_layer = -1`): base layer is `j = 1` -/
example : (⟨⟨3, 2, 0⟩, 1, -1, 3⟩ : Geo).dirLayer < 3 ∧ layerIdx ⟨⟨3, 2, 0⟩, 1, -1, 3⟩ 0 = 1 ∧
    (⟨⟨3, 2, 0⟩, 1, -1, 3⟩ : Geo).nl = 2 ∧ (⟨⟨3, 2, 0⟩, 1, -1, 3⟩ : Geo).n1 = 3 ∧
    (⟨⟨3, 2, 0⟩, 1, -1, 3⟩ : Geo).el 1 2 0 = 5 := by decide

/-! ## the same at the level of `_prepare` (constructor arguments) -/

section Prepared
variable {α : Type} [Field α] [LinearOrder α] [IsStrictOrderedRing α]

/-- `_prepare` with an axis direction `m·e_d` of any non-zero magnitude (vector form, after pad/truncate), `sqrt` positive
    on positive numbers: `_response` sweeps along axis `d` with `dx_layer = sign m`; the number of supports is the one
    validated for the dimension; the scalar parameters are stored unchanged -/
theorem overhang_prepare_axis (F : Fns α) (dom : Dom) (v : List α) (xi0 p eps : α) (ns : Option Int)
    (pr : Prepared α) (d : Nat) (hd : d < 3) (m : α) (hm : m ≠ 0) (hv : ∀ i, padTrunc v i = if i = d then m else 0)
    (hsqrt : ∀ t : α, 0 < t → 0 < F.sqrt t) (h : prepare F dom (.vec v) xi0 p eps ns = .ok pr) :
    geoOf pr = ⟨dom, d, if m < 0 then -1 else 1, (nsOf dom ns).toNat⟩ ∧
    ((dom.dim = 2 ∧ (nsOf dom ns).toNat = 3) ∨
      (dom.dim = 3 ∧ ((nsOf dom ns).toNat = 5 ∨ (nsOf dom ns).toNat = 9))) ∧
    pr.xi0 = xi0 ∧ pr.p = p ∧ pr.eps = eps ∧ pr.nsampling = (nsOf dom ns).toNat :=
  prepare_axis_geo F dom v xi0 p eps ns pr d hd m hm hv (norm3_axis_pos F _ d hd m hm hv hsqrt) h

/-- … and with a direction string naming exactly one axis: axis `axisOf s`, `dx_layer = -1` iff the string contains `-` -/
theorem overhang_prepare_axis_str (F : Fns α) (dom : Dom) (s : List Char) (xi0 p eps : α) (ns : Option Int)
    (pr : Prepared α) (hs : axisCount s = 1) (hsqrt : ∀ t : α, 0 < t → 0 < F.sqrt t)
    (h : prepare F dom (.str s) xi0 p eps ns = .ok pr) :
    geoOf pr = ⟨dom, axisOf s, if hasMinus s then -1 else 1, (nsOf dom ns).toNat⟩ ∧
    ((dom.dim = 2 ∧ (nsOf dom ns).toNat = 3) ∨
      (dom.dim = 3 ∧ ((nsOf dom ns).toNat = 5 ∨ (nsOf dom ns).toNat = 9))) := by
  have hp : parseStr (α := α) s = .ok (unitVec (axisOf s) (if hasMinus s then -1 else 1)) := by
    rw [parseStr_spec, if_pos hs]
  rw [prepare_str_eq_vec F dom s _ xi0 p eps ns hp] at h
  have ha : axisOf s < 3 := by unfold axisOf; split <;> [omega; (split <;> omega)]
  have hm : (if hasMinus s then (-1 : α) else 1) ≠ 0 := by split <;> norm_num
  obtain ⟨h1, h2, _⟩ := overhang_prepare_axis F dom _ xi0 p eps ns pr (axisOf s) ha _ hm
    (padTrunc_unitList (axisOf s) ha _) hsqrt h
  refine ⟨?_, h2⟩
  rw [h1]
  congr 1
  cases hasMinus s <;> norm_num

/-- non-vacuity: over `ℚ` with `sqrt = id` (positive on positive numbers) the call `direction="y-"` on a 2×2 domain -/
example : (∀ t : ℚ, 0 < t → 0 < (⟨id, fun a _ => a, id, 0⟩ : Fns ℚ).sqrt t) ∧ axisCount ['y', '-'] = 1 ∧
    axisOf ['y', '-'] = 1 ∧ hasMinus ['y', '-'] = true ∧
    (prepare (α := ℚ) ⟨id, fun a _ => a, id, 0⟩ ⟨2, 2, 0⟩ (.str ['y', '-']) (1/2) 40 (1/10000) none).isOk = true :=
  ⟨fun _ h => h, by decide, by decide, by decide, by decide +kernel⟩

/-- EVERY PERMUTATION OF THE DOMAIN AXES AT THE LEVEL OF THE CONSTRUCTOR: `OverhangFilter(dom, direction = m·e_d, …)`
    versus `OverhangFilter(dom', direction = m·e_{π d}, …)` with the same `xi_0, p, eps, nsampling` argument, both accepted
    by `_prepare`, `dom'` being `dom` with axis `i` relabelled `π i`.  Both filters get the same smooth-min/max parameters
    from `set_parameters`, and the response to the relabelled design is the relabelled response. -/
theorem overhang_axis_permutation_prepared (F : Fns α) (P : Par α) (dom dom' : Dom) (π : Equiv.Perm (Fin 3)) (d : Fin 3)
    (m : α) (v v' : List α) (xi0 p eps : α) (ns : Option Int) (pr pr' : Prepared α) (x x' : Nat → α)
    (hm : m ≠ 0) (hsqrt : ∀ t : α, 0 < t → 0 < F.sqrt t)
    (hv : ∀ i, padTrunc v i = if i = d.val then m else 0)
    (hv' : ∀ i, padTrunc v' i = if i = (π d).val then m else 0)
    (hp : prepare F dom (.vec v) xi0 p eps ns = .ok pr) (hp' : prepare F dom' (.vec v') xi0 p eps ns = .ok pr')
    (hdim : dom'.dim = dom.dim) (h2 : dom.dim = 2 → π 2 = 2)
    (hsize : ∀ i, dsize dom' (π i) = dsize dom i)
    (hx : ∀ c : Fin 3 → Nat, (∀ i, c i < dsize dom i) → x' (elemAt dom' (c ∘ π.symm)) = x (elemAt dom c)) :
    setParameters F pr' = setParameters F pr ∧
    ∀ c : Fin 3 → Nat, (∀ i, c i < dsize dom i) →
      vget (response F P (geoOf pr') x').xprint (elemAt dom' (c ∘ π.symm)) =
        vget (response F P (geoOf pr) x).xprint (elemAt dom c) := by
  obtain ⟨g1, n1, a1, a2, a3, a4⟩ := overhang_prepare_axis F dom v xi0 p eps ns pr d.val d.isLt m hm hv hsqrt hp
  obtain ⟨g1', _, b1, b2, b3, b4⟩ :=
    overhang_prepare_axis F dom' v' xi0 p eps ns pr' (π d).val (π d).isLt m hm hv' hsqrt hp'
  have hnsE : nsOf dom' ns = nsOf dom ns := by unfold nsOf; rw [hdim]
  constructor
  · unfold setParameters
    rw [a1, a2, a3, a4, b1, b2, b3, b4, hnsE]
  · rw [g1, g1', hnsE]
    exact overhang_axis_permutation F P dom dom' π d _ _ x x' (by split <;> simp) n1 hdim h2 hsize hx

end Prepared

/-! ### non-vacuity of the axis-permutation theorems -/

/-- the hypotheses on the domains: a 2×3 grid (`+x`) and the transposed 3×2 grid (`+y`) -/
example : let dom : Dom := ⟨2, 3, 0⟩
    let dom' : Dom := ⟨3, 2, 0⟩
    let π : Equiv.Perm (Fin 3) := Equiv.swap 0 1
    dom'.dim = dom.dim ∧ π 2 = 2 ∧ (∀ i, dsize dom' (π i) = dsize dom i) ∧ (π 0).val = 1 ∧
      elemAt dom (vec3 0 2 0) = 4 ∧ elemAt dom' (vec3 0 2 0 ∘ π.symm) = 2 := by decide

/-- … and a cyclic relabelling x → z → y → x of a 2×3×4 grid (the 3×4×2 grid) -/
example : let dom : Dom := ⟨2, 3, 4⟩
    let dom' : Dom := ⟨3, 4, 2⟩
    let π : Equiv.Perm (Fin 3) := (Equiv.swap 0 1).trans (Equiv.swap 1 2)
    dom'.dim = dom.dim ∧ (∀ i, dsize dom' (π i) = dsize dom i) ∧ (π 0).val = 2 ∧ (π 1).val = 0 ∧ (π 2).val = 1 ∧
      elemAt dom (vec3 1 0 2) = 13 ∧ elemAt dom' (vec3 1 0 2 ∘ π.symm) = 18 := by decide

/-- a complete instance evaluated over `ℚ` (`pow a _ = a`, `sqrt = id`, `p = q = 1`, `eps = 1/4`): the design
    `x_e = (e+1)/7` on the 2×3 grid printed in `+x` and the transposed design on the 3×2 grid printed in `+y`; the
    responses agree element by element through the transposition, and the filter is not the identity -/
example : let F : Fns ℚ := ⟨id, fun a _ => a, id, 0⟩
    let P : Par ℚ := ⟨1, 1, 0, 0, 1/4⟩
    let x : Nat → ℚ := fun e => ((e : ℚ) + 1) / 7
    let x' : Nat → ℚ := fun e' => x ((e' % 3) * 2 + e' / 3)
    (∀ i, i < 2 → ∀ j, j < 3 → x' ((⟨3, 2, 0⟩ : Dom).elemNumber j i 0) = x ((⟨2, 3, 0⟩ : Dom).elemNumber i j 0)) ∧
    (∀ i, i < 2 → ∀ j, j < 3 →
      vget (response F P ⟨⟨3, 2, 0⟩, 1, 1, 3⟩ x').xprint ((⟨3, 2, 0⟩ : Dom).elemNumber j i 0) =
        vget (response F P ⟨⟨2, 3, 0⟩, 0, 1, 3⟩ x).xprint ((⟨2, 3, 0⟩ : Dom).elemNumber i j 0)) ∧
    vget (response F P ⟨⟨2, 3, 0⟩, 0, 1, 3⟩ x).xprint 3 ≠ x 3 := by decide +kernel

/-- the same in 3-D across the print axis (x ↔ z, 5 supports): the 3×2×2 grid printed in `-x` and the 2×2×3 grid printed
    in `-z` -/
example : let F : Fns ℚ := ⟨id, fun a _ => a, id, 0⟩
    let P : Par ℚ := ⟨1, 1, 0, 0, 1/4⟩
    let x : Nat → ℚ := fun e => ((e : ℚ) * e + 1) / 150
    let x' : Nat → ℚ := fun e' => x (((e' % 2) * 2 + (e' / 2) % 2) * 3 + e' / 4)
    (∀ i, i < 3 → ∀ j, j < 2 → ∀ k, k < 2 →
      x' ((⟨2, 2, 3⟩ : Dom).elemNumber k j i) = x ((⟨3, 2, 2⟩ : Dom).elemNumber i j k)) ∧
    (∀ i, i < 3 → ∀ j, j < 2 → ∀ k, k < 2 →
      vget (response F P ⟨⟨2, 2, 3⟩, (Equiv.swap (0 : Fin 3) 2 0).val, -1, 5⟩ x').xprint ((⟨2, 2, 3⟩ : Dom).elemNumber k j i) =
        vget (response F P ⟨⟨3, 2, 2⟩, (0 : Fin 3).val, -1, 5⟩ x).xprint ((⟨3, 2, 2⟩ : Dom).elemNumber i j k)) ∧
    vget (response F P ⟨⟨3, 2, 2⟩, 0, -1, 5⟩ x).xprint 0 ≠ x 0 := by decide +kernel

/-- non-vacuity of `overhang_axis_permutation_prepared`: with a `sqrt` that is positive on positive numbers and maps
    `25 ↦ 5`, `_prepare` accepts `direction = [-5, 0]` on the 2×3 grid and `direction = [0, -5]` on the 3×2 grid -/
example : let F : Fns ℚ := ⟨id, fun a _ => a, fun t => if t = 25 then 5 else t, 0⟩
    (∀ t : ℚ, 0 < t → 0 < F.sqrt t) ∧
    (∀ i, padTrunc [(-5 : ℚ), 0] i = if i = (0 : Fin 3).val then -5 else 0) ∧
    (∀ i, padTrunc [(0 : ℚ), -5] i = if i = (Equiv.swap (0 : Fin 3) 1 0).val then -5 else 0) ∧
    (prepare F ⟨2, 3, 0⟩ (.vec [-5, 0]) (1/2) 40 (1/10000) none).isOk = true ∧
    (prepare F ⟨3, 2, 0⟩ (.vec [0, -5]) (1/2) 40 (1/10000) none).isOk = true := by
  refine ⟨fun t ht => ?_, fun i => ?_, fun i => ?_, by decide +kernel, by decide +kernel⟩
  · show 0 < (if t = 25 then (5 : ℚ) else t)
    split
    · norm_num
    · exact ht
  · rcases i with _ | _ | _ | i <;> simp [padTrunc]
  · have e : (Equiv.swap (0 : Fin 3) 1 0).val = 1 := by decide
    rw [e]
    rcases i with _ | _ | _ | i <;> simp [padTrunc]

end PymotoVerif.C14
