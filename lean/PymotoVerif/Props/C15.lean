/-
C15 — DyadCarrier behaves exactly like the dense matrix it represents.
Property theorems ONLY (helper lemmas: `Lemmas/DyadCx.lean`, `Lemmas/Dyad.lean`, `Lemmas/DyadOps.lean`).

Model: `LA/Dyad.lean` (transcription of `pymoto/common/dyadcarrier.py`).  Abstraction: `dense C i j = Σ_k u_k[i]·v_k[j]`
over `Cx α` (pairs over any commutative ring `α`; the driver runs `α = Rat`).  Every theorem is a simulation statement:
whenever the modelled operation returns (does not raise), the result's dense matrix / shape / dtype flag are those of
the dense operation.  `WF` is the representation invariant (every stored vector has the carrier's length) which every
operation is shown to preserve.  The dtype-flag claims need `Tight` (see `Lemmas/DyadOps.lean`): for loose carriers
the code loses the complex type (open finding, corpus/defects/open_c15_dtype_lost_on_copy.py).
-/
import PymotoVerif.Lemmas.DyadProg
import PymotoVerif.Lemmas.DyadExamples
import Mathlib.Data.Matrix.Mul

set_option linter.unusedSectionVars false

namespace PymotoVerif.C15
open PymotoVerif PymotoVerif.Dyad
variable {α : Type} [CommRing α] [DecidableEq α]

/-! ## unary operations returning a carrier -/

theorem copy_refines {C D : Carrier α} (w : WF C) (h : copy C = .ok D) :
    (∀ i j, dense D i j = dense C i j) ∧ D.ulen = C.ulen ∧ D.vlen = C.vlen ∧ WF D ∧ (Tight C → D.c = C.c) := by
  obtain ⟨_, wd, d, c, _⟩ := ofVecs_ok h
  obtain ⟨s1, s2⟩ := ofVecs_shape h w.shape_ok.1 w.shape_ok.2
  exact ⟨d, s1, s2, wd, fun t => by rw [c, t]⟩

theorem neg_refines {C D : Carrier α} (w : WF C) (h : neg C = .ok D) :
    (∀ i j, dense D i j = - dense C i j) ∧ D.ulen = C.ulen ∧ D.vlen = C.vlen ∧ WF D ∧ (Tight C → D.c = C.c) := by
  obtain ⟨_, wd, d, c, _⟩ := ofVecs_ok h
  obtain ⟨s1, s2⟩ := ofVecs_shape h (by simpa using w.shape_ok.1) (by simpa using w.shape_ok.2)
  refine ⟨fun i j => ?_, s1, s2, wd, fun t => by rw [c, t]; simp only [any_c_map]⟩
  rw [d, dsum_map_left (c := -1) (fun u => by rw [get_map (by simp)]; ring)]
  simp [dense]

theorem conj_refines {C D : Carrier α} (w : WF C) (h : conj C = .ok D) :
    (∀ i j, dense D i j = Cx.conj (dense C i j)) ∧ D.ulen = C.ulen ∧ D.vlen = C.vlen ∧ WF D
      ∧ (Tight C → D.c = C.c) := by
  obtain ⟨_, wd, d, c, _⟩ := ofVecs_ok h
  obtain ⟨s1, s2⟩ := ofVecs_shape h (by simpa using w.shape_ok.1) (by simpa using w.shape_ok.2)
  refine ⟨fun i j => ?_, s1, s2, wd, fun t => by rw [c, t]; simp only [any_c_map]⟩
  rw [d, dsum_conj]; rfl

/-- `.real` : the four-term expansion `Re(u vᵀ) = Re u Re vᵀ − Im u Im vᵀ`; the result is always real-typed -/
theorem real_refines {C D : Carrier α} (w : WF C) (h : real C = .ok D) :
    (∀ i j, dense D i j = Cx.rePart (dense C i j)) ∧ D.ulen = C.ulen ∧ D.vlen = C.vlen ∧ WF D ∧ D.c = false := by
  obtain ⟨_, wd, d, c, _⟩ := ofVecs_ok h
  obtain ⟨s1, s2⟩ := ofVecs_shape h (by simpa using w.shape_ok.1) (by simpa using w.shape_ok.2)
  refine ⟨fun i j => ?_, s1, s2, wd, by rw [c]; simp [DVec.re, DVec.im, DVec.negIm]⟩
  rw [d, dsum_append (by simp [w.len]), dsum_real]; rfl

/-- `.imag` : `Im(u vᵀ) = Re u Im vᵀ + Im u Re vᵀ` -/
theorem imag_refines {C D : Carrier α} (w : WF C) (h : imag C = .ok D) :
    (∀ i j, dense D i j = Cx.imPart (dense C i j)) ∧ D.ulen = C.ulen ∧ D.vlen = C.vlen ∧ WF D ∧ D.c = false := by
  obtain ⟨_, wd, d, c, _⟩ := ofVecs_ok h
  obtain ⟨s1, s2⟩ := ofVecs_shape h (by simpa using w.shape_ok.1) (by simpa using w.shape_ok.2)
  refine ⟨fun i j => ?_, s1, s2, wd, by rw [c]; simp [DVec.re, DVec.im, DVec.negIm]⟩
  rw [d, dsum_append (by simp [w.len]), dsum_imag]; rfl

theorem transpose_refines {C D : Carrier α} (w : WF C) (h : transpose C = .ok D) :
    (∀ i j, dense D i j = dense C j i) ∧ D.ulen = C.vlen ∧ D.vlen = C.ulen ∧ WF D ∧ (Tight C → D.c = C.c) := by
  obtain ⟨_, wd, d, c, _⟩ := ofVecs_ok h
  have hs := w.shape_ok
  have hv : C.v = [] → C.u = [] := fun e => by
    have := w.len; rw [e] at this; exact List.eq_nil_of_length_eq_zero this
  have hu : C.u = [] → C.v = [] := fun e => by
    have := w.len; rw [e] at this; exact List.eq_nil_of_length_eq_zero this.symm
  obtain ⟨s1, s2⟩ := ofVecs_shape h
    (by rcases hs.2 with e | e; exact Or.inl (hu e); exact Or.inr e)
    (by rcases hs.1 with e | e; exact Or.inl (hu e); exact Or.inr e)
  refine ⟨fun i j => ?_, s1, s2, wd, fun t => by rw [c, t, Bool.or_comm]⟩
  rw [d, dsum_swap]; rfl


/-! ## scalar products -/

/-- `self * z` (the factor goes into the `v` vectors). Type: complex iff some stored vector or — when a dyad is stored —
    the scalar is complex. -/
theorem mul_refines {C D : Carrier α} {z : Cx α} {zc : Bool} (w : WF C) (h : mul C z zc = .ok D) :
    (∀ i j, dense D i j = dense C i j * z) ∧ D.ulen = C.ulen ∧ D.vlen = C.vlen ∧ WF D
      ∧ (Tight C → C.v ≠ [] → D.c = (C.c || zc)) := by
  obtain ⟨_, wd, d, c, _⟩ := ofVecs_ok h
  obtain ⟨s1, s2⟩ := ofVecs_shape h w.shape_ok.1 w.shape_ok.2
  refine ⟨fun i j => ?_, s1, s2, wd, fun t ne => ?_⟩
  · rw [d, dsum_map_right (c := z) (fun v => get_scaleR z zc v j)]; rfl
  · rw [c, t, any_c_scale]
    have : C.v.isEmpty = false := by cases hv : C.v with
      | nil => exact absurd hv ne
      | cons _ _ => rfl
    rw [this]; simp [Bool.or_assoc]

/-- `z * self` (the factor goes into the `u` vectors) -/
theorem rmul_refines {C D : Carrier α} {z : Cx α} {zc : Bool} (w : WF C) (h : rmul z zc C = .ok D) :
    (∀ i j, dense D i j = z * dense C i j) ∧ D.ulen = C.ulen ∧ D.vlen = C.vlen ∧ WF D
      ∧ (Tight C → C.u ≠ [] → D.c = (C.c || zc)) := by
  obtain ⟨_, wd, d, c, _⟩ := ofVecs_ok h
  obtain ⟨s1, s2⟩ := ofVecs_shape h (by simpa using w.shape_ok.1) (by simpa using w.shape_ok.2)
  refine ⟨fun i j => ?_, s1, s2, wd, fun t ne => ?_⟩
  · rw [d, dsum_map_left (c := z) (fun u => get_scaleL z zc u i)]; rfl
  · rw [c, t, any_c_scale]
    have : C.u.isEmpty = false := by cases hv : C.u with
      | nil => exact absurd hv ne
      | cons _ _ => rfl
    rw [this]
    cases C.u.any (·.c) <;> cases C.v.any (·.c) <;> cases zc <;> rfl

/-! ## in-place and binary addition / subtraction -/

/-- `self += other` (also `a += a`, `other` may be the same carrier) -/
theorem iadd_refines {C O R : Carrier α} (w : WF C) (h : iadd C O = (R, none)) :
    (∀ i j, dense R i j = dense C i j + dense O i j) ∧ WF R
      ∧ (0 ≤ C.ulen → R.ulen = C.ulen) ∧ (0 ≤ C.vlen → R.vlen = C.vlen)
      ∧ (Tight O → R.c = (C.c || O.c)) := by
  obtain ⟨_, c, su, sv, _, _, _, hw⟩ := addVecs_ok h
  obtain ⟨wr, d⟩ := hw w
  exact ⟨fun i j => by rw [d]; rfl, wr, su, sv, fun t => by rw [c, t, Bool.or_assoc]⟩

/-- `self -= other` -/
theorem isub_refines {C O R : Carrier α} (w : WF C) (h : isub C O = (R, none)) :
    (∀ i j, dense R i j = dense C i j - dense O i j) ∧ WF R
      ∧ (0 ≤ C.ulen → R.ulen = C.ulen) ∧ (0 ≤ C.vlen → R.vlen = C.vlen)
      ∧ (Tight O → R.c = (C.c || O.c)) := by
  obtain ⟨_, c, su, sv, _, _, _, hw⟩ := addVecs_ok h
  obtain ⟨wr, d⟩ := hw w
  refine ⟨fun i j => ?_, wr, su, sv, fun t => by rw [c, t, Bool.or_assoc]⟩
  rw [d]; simp only [fmul, negOne_eq, dense]; ring

/-- `self + other` for two carriers -/
theorem addD_refines {C O R : Carrier α} (w : WF C) (h : addD C O = .ok R) :
    (∀ i j, dense R i j = dense C i j + dense O i j) ∧ WF R
      ∧ (0 ≤ C.ulen → R.ulen = C.ulen) ∧ (0 ≤ C.vlen → R.vlen = C.vlen)
      ∧ (Tight C → Tight O → R.c = (C.c || O.c)) := by
  unfold addD at h
  split_ifs at h with hs
  obtain ⟨C', hc, h⟩ := bind_ok_iff.mp h
  cases hi : iadd C' O with
  | mk R' e =>
    rw [hi] at h
    cases e with
    | some e => simp at h
    | none =>
      simp only [Except.ok.injEq] at h
      subst h
      obtain ⟨d1, s1, s2, w1, c1⟩ := copy_refines w hc
      obtain ⟨d2, w2, t1, t2, c2⟩ := iadd_refines w1 hi
      refine ⟨fun i j => by rw [d2, d1], w2, fun h0 => ?_, fun h0 => ?_, fun tc tO => ?_⟩
      · rw [t1 (by rw [s1]; exact h0), s1]
      · rw [t2 (by rw [s2]; exact h0), s2]
      · rw [c2 tO, c1 tc]

/-- `self - other` for two carriers: `self + (-other)` -/
theorem subD_refines {C O R : Carrier α} (w : WF C) (wo : WF O) (h : subD C O = .ok R) :
    (∀ i j, dense R i j = dense C i j - dense O i j) ∧ WF R
      ∧ (0 ≤ C.ulen → R.ulen = C.ulen) ∧ (0 ≤ C.vlen → R.vlen = C.vlen) := by
  unfold subD at h
  obtain ⟨N, hn, h⟩ := bind_ok_iff.mp h
  obtain ⟨d1, _, _, _, _⟩ := neg_refines wo hn
  obtain ⟨d2, w2, t1, t2, _⟩ := addD_refines w h
  exact ⟨fun i j => by rw [d2, d1]; ring, w2, t1, t2⟩

/-- `self + 0` / `0 + self` : a copy; any other scalar raises `NotImplementedError` -/
theorem addS_refines {C D : Carrier α} {z : Cx α} (w : WF C) (h : addS C z = .ok D) :
    z = 0 ∧ (∀ i j, dense D i j = dense C i j) ∧ D.ulen = C.ulen ∧ D.vlen = C.vlen ∧ WF D := by
  unfold addS at h
  split_ifs at h with hz
  obtain ⟨d, s1, s2, wd, _⟩ := copy_refines w h
  exact ⟨hz, d, s1, s2, wd⟩

/-- `self - 0` : `self + (-0)`, a copy -/
theorem subS_refines {C D : Carrier α} {z : Cx α} (w : WF C) (h : subS C z = .ok D) :
    z = 0 ∧ (∀ i j, dense D i j = dense C i j) ∧ D.ulen = C.ulen ∧ D.vlen = C.vlen ∧ WF D := by
  obtain ⟨hz, r⟩ := addS_refines w h
  exact ⟨by simpa using hz, r⟩

theorem addS_nonzero_raises (C : Carrier α) {z : Cx α} (hz : z ≠ 0) : addS C z = .error .NotImplementedError := by
  simp [addS, hz]

/-- `0 - self` : `-self.copy()` -/
theorem rsubS_refines {C D : Carrier α} {z : Cx α} (w : WF C) (h : rsubS z C = .ok D) :
    z = 0 ∧ (∀ i j, dense D i j = - dense C i j) ∧ D.ulen = C.ulen ∧ D.vlen = C.vlen ∧ WF D := by
  unfold rsubS at h
  split_ifs at h with hz
  obtain ⟨C', hc, h⟩ := bind_ok_iff.mp h
  obtain ⟨d1, s1, s2, w1, _⟩ := copy_refines w hc
  obtain ⟨d2, t1, t2, w2, _⟩ := neg_refines w1 h
  exact ⟨hz, fun i j => by rw [d2, d1], by rw [t1, s1], by rw [t2, s2], w2⟩


/-! ## conversion to dense, diagonal -/

/-- `todense()` : shape `(max 0 ulen, max 0 vlen)`, C-order entries `Σ_k u_k[i] v_k[j]`, the carrier's dtype -/
theorem todense_refines (C : Carrier α) :
    (todense C).shape = [C.ulen.toNat, C.vlen.toNat] ∧ (todense C).c = C.c
      ∧ (todense C).data.length = C.ulen.toNat * C.vlen.toNat
      ∧ ∀ i j, i < C.ulen.toNat → j < C.vlen.toNat →
          at0 (todense C).data (i * C.vlen.toNat + j) = dense C i j := by
  refine ⟨rfl, rfl, by simp [todense], fun i j hi hj => ?_⟩
  have hlt : i * C.vlen.toNat + j < C.ulen.toNat * C.vlen.toNat := by
    calc i * C.vlen.toNat + j < i * C.vlen.toNat + C.vlen.toNat := by omega
      _ = (i + 1) * C.vlen.toNat := by ring
      _ ≤ C.ulen.toNat * C.vlen.toNat := Nat.mul_le_mul_right _ hi
  simp only [todense]
  rw [at0_tab _ _ hlt]
  have h1 : (i * C.vlen.toNat + j) / C.vlen.toNat = i := by
    rw [Nat.add_comm, Nat.add_mul_div_right _ _ (by omega), Nat.div_eq_of_lt hj, Nat.zero_add]
  have h2 : (i * C.vlen.toNat + j) % C.vlen.toNat = j := by
    rw [Nat.add_comm, Nat.add_mul_mod_self_right, Nat.mod_eq_of_lt hj]
  rw [h1, h2]; rfl

/-- `diagonal(k)` for every offset and rectangular shapes: length `max 0 (min (ulen - max 0 (-k)) (vlen - max 0 k))`,
    entry `t` is `A[max 0 (-k) + t, max 0 k + t]` -/
theorem diagonal_refines (C : Carrier α) (k : Int) :
    (diagonal C k).c = C.c
      ∧ (diagonal C k).shape = [(diagonal C k).data.length]
      ∧ (diagonal C k).data.length = (min (C.ulen - max 0 (-k)) (C.vlen - max 0 k)).toNat
      ∧ ∀ t, t < (diagonal C k).data.length →
          at0 (diagonal C k).data t = dense C ((max 0 (-k)).toNat + t) ((max 0 k).toNat + t) := by
  simp only [diagonal]
  split_ifs with h0 hn
  · refine ⟨rfl, rfl, ?_, fun t ht => by simp at ht⟩
    simp only [List.length_nil]
    rcases h0 with h0 | h0 <;> rw [h0] <;> symm <;> apply Int.toNat_of_nonpos <;> omega
  · refine ⟨rfl, rfl, ?_, fun t ht => by simp at ht⟩
    simp only [List.length_nil]
    symm; apply Int.toNat_of_nonpos; omega
  · refine ⟨rfl, by simp, by simp, fun t ht => ?_⟩
    simp only [List.length_map, List.length_range] at ht
    rw [at0_tab _ _ ht]; rfl

/-! ## products with vectors and matrices -/

/-- `self @ x` / `self.dot(x)` for a vector: `(A x)[i] = Σ_l A[i,l] x[l]`, length `max 0 ulen`, promoted dtype
    (also for an empty carrier: the zero vector, as repaired by 94a7b8e) -/
theorem dotV_refines {C : Carrier α} {x : DVec α} {r : NArr α} (h : dotV C x = .ok r) :
    r.shape = [C.ulen.toNat] ∧ r.c = (C.c || x.c) ∧ r.data.length = C.ulen.toNat
      ∧ ∀ i, i < C.ulen.toNat → at0 r.data i = rsum x.len (fun l => dense C i l * x.get l) := by
  unfold dotV at h
  obtain ⟨cs, hcs, h⟩ := bind_ok_iff.mp h
  simp only [pure, Except.pure, Except.ok.injEq] at h
  subst h
  refine ⟨rfl, rfl, by simp [accum], fun i hi => ?_⟩
  simp only [accum]
  rw [at0_tab _ _ hi]
  exact mapM_dot_dsum hcs i

/-- `x @ self` for a vector: `(x A)[j] = Σ_l x[l] A[l,j]` -/
theorem rdotV_refines {C : Carrier α} {x : DVec α} {r : NArr α} (h : rdotV x C = .ok r) :
    r.shape = [C.vlen.toNat] ∧ r.c = (C.c || x.c) ∧ r.data.length = C.vlen.toNat
      ∧ ∀ j, j < C.vlen.toNat → at0 r.data j = rsum x.len (fun l => x.get l * dense C l j) := by
  unfold rdotV at h
  obtain ⟨cs, hcs, h⟩ := bind_ok_iff.mp h
  simp only [pure, Except.pure, Except.ok.injEq] at h
  subst h
  refine ⟨rfl, rfl, by simp [accum], fun j hj => ?_⟩
  simp only [accum]
  rw [at0_tab _ _ hj]
  exact mapM_rdot_dsum hcs j

/-- `self @ M` for a dense `m × n` matrix: a carrier of shape `(ulen, n)` with `(A M)[i,j] = Σ_k A[i,k] M[k,j]` -/
theorem matmulM_refines {C D : Carrier α} {M : NArr α} {m n : Nat} (hs : M.shape = [m, n]) (w : WF C)
    (h : matmulM C M = .ok D) :
    (∀ i j, j < n → dense D i j = rsum m (fun k => dense C i k * at0 M.data (k * n + j)))
      ∧ D.ulen = C.ulen ∧ D.vlen = n ∧ WF D ∧ (Tight C → C.v ≠ [] → D.c = (C.c || M.c)) := by
  unfold matmulM at h
  obtain ⟨vs, hvs, h⟩ := bind_ok_iff.mp h
  obtain ⟨_, a1, d1⟩ := mapM_vecMat_dsum hs hvs
  obtain ⟨_, wd, d, c, _⟩ := ofVecs_ok h
  obtain ⟨s1, s2⟩ := ofVecs_shape h w.shape_ok.1 (Or.inr (by rw [hs]; simp))
  refine ⟨fun i j hj => by rw [d, d1 C.u i j hj]; rfl, s1, by rw [s2, hs]; simp, wd, fun t ne => ?_⟩
  rw [c, a1, t]
  have : C.v.isEmpty = false := by cases hv : C.v with
    | nil => exact absurd hv ne
    | cons _ _ => rfl
  rw [this]; simp [Bool.or_assoc]

/-- `M @ self` for a dense `m × n` matrix: a carrier of shape `(m, vlen)` with `(M A)[i,j] = Σ_k M[i,k] A[k,j]` -/
theorem rmatmulM_refines {C D : Carrier α} {M : NArr α} {m n : Nat} (hs : M.shape = [m, n]) (w : WF C)
    (h : rmatmulM M C = .ok D) :
    (∀ i j, i < m → dense D i j = rsum n (fun k => at0 M.data (i * n + k) * dense C k j))
      ∧ D.ulen = m ∧ D.vlen = C.vlen ∧ WF D ∧ (Tight C → C.u ≠ [] → D.c = (C.c || M.c)) := by
  unfold rmatmulM at h
  obtain ⟨us, hus, h⟩ := bind_ok_iff.mp h
  obtain ⟨l1, a1, d1⟩ := mapM_matVec_dsum hs hus
  obtain ⟨_, wd, d, c, _⟩ := ofVecs_ok h
  have hnil : us = [] → C.u = [] := fun e => by
    rw [e] at l1; exact List.eq_nil_of_length_eq_zero l1.symm
  obtain ⟨s1, s2⟩ := ofVecs_shape h (Or.inr (by rw [hs]; simp))
    (by rcases w.shape_ok.2 with e | e
        · left; rw [e] at l1; exact List.eq_nil_of_length_eq_zero l1
        · exact Or.inr e)
  refine ⟨fun i j hi => by rw [d, d1 C.v i j hi]; rfl, by rw [s1, hs]; simp, s2, wd, fun t ne => ?_⟩
  rw [c, a1, t]
  have : C.u.isEmpty = false := by cases hv : C.u with
    | nil => exact absurd hv ne
    | cons _ _ => rfl
  rw [this]
  cases C.u.any (·.c) <;> cases C.v.any (·.c) <;> cases M.c <;> rfl


/-- `self @ other` for two carriers: `(A B)[i,j] = Σ_l A[i,l] B[l,j]`, shape `(A.ulen, B.vlen)` -/
theorem matmulD_refines {C O D : Carrier α} (w : WF C) (hv : 0 ≤ O.vlen) (h : matmulD C O = .ok D) :
    (∀ i j, j < O.vlen.toNat → dense D i j = rsum C.vlen.toNat (fun l => dense C i l * dense O l j))
      ∧ D.ulen = C.ulen ∧ D.vlen = O.vlen ∧ WF D := by
  unfold matmulD at h
  obtain ⟨vs, hvs, h⟩ := bind_ok_iff.mp h
  have hl : ∀ x ∈ C.v, x.len = C.vlen.toNat := fun x hx => by have := w.vl x hx; omega
  obtain ⟨_, d1⟩ := mapM_rdotD_dsum hl hvs
  obtain ⟨_, wd, d, _, _⟩ := ofVecs_ok h
  obtain ⟨s1, s2⟩ := ofVecs_shape h w.shape_ok.1 (Or.inr hv)
  exact ⟨fun i j hj => by rw [d, d1 C.u i j hj]; rfl, s1, s2, wd⟩

/-! ## `__getitem__` -/

/-- a carrier without any shape information returns an empty carrier for every subscript -/
theorem getitem_unset (C : Carrier α) (h : C.ulen < 0 ∧ C.vlen < 0) (i0 i1 : Idx) :
    getitem C i0 i1 = .ok (.car (empty (-1) (-1))) := by
  simp [getitem, h]

/-- scalar-index and integer-array forms return VALUES: entry `t` of the result (shape = the broadcast shape of the
    two index samples) is `A[row(t), col(t)]`; dtype of the carrier -/
theorem getitem_values_refines {C : Carrier α} {i0 i1 : Idx} {a : NArr α} (hu : 0 ≤ C.ulen) (hv : 0 ≤ C.vlen)
    (h : getitem C i0 i1 = .ok (.arr a)) :
    ∃ ush upos vsh vpos, applyIdx C.ulen.toNat i0 = .ok (ush, upos) ∧ applyIdx C.vlen.toNat i1 = .ok (vsh, vpos)
      ∧ a.shape = (if ush.isEmpty then vsh else ush) ∧ a.c = C.c
      ∧ ∀ t, t < prodL a.shape → at0 a.data t =
          dense C (if ush.isEmpty then upos.getD 0 0 else upos.getD t 0)
                  (if vsh.isEmpty then vpos.getD 0 0 else vpos.getD t 0) := by
  unfold getitem at h
  rw [if_neg (by omega), if_neg (by omega), if_neg (by omega)] at h
  obtain ⟨⟨ush, upos⟩, h0, h⟩ := bind_ok_iff.mp h
  obtain ⟨⟨vsh, vpos⟩, h1, h⟩ := bind_ok_iff.mp h
  refine ⟨ush, upos, vsh, vpos, h0, h1, ?_⟩
  simp only at h
  by_cases e1 : (i0.isArr && i1.isArr && ush != vsh) = true
  · rw [if_pos e1] at h; simp at h
  · rw [if_neg e1] at h
    by_cases e2 : (ush.isEmpty || vsh.isEmpty || (i0.isArr && i1.isArr)) = true
    · rw [if_pos e2] at h
      simp only [Except.ok.injEq, GetRes.arr.injEq] at h
      subst h
      refine ⟨rfl, rfl, fun t ht => ?_⟩
      rw [at0_tab _ _ ht]
      rfl
    · rw [if_neg e2] at h
      split at h <;> simp at h

/-- slice × slice (and 1-d integer array × slice) forms return a new CARRIER with `B[p,q] = A[rows[p], cols[q]]` -/
theorem getitem_carrier_refines {C D : Carrier α} {i0 i1 : Idx} (hu : 0 ≤ C.ulen) (hv : 0 ≤ C.vlen)
    {upos vpos : List Nat}
    (h0 : applyIdx C.ulen.toNat i0 = .ok ([upos.length], upos))
    (h1 : applyIdx C.vlen.toNat i1 = .ok ([vpos.length], vpos))
    (h : getitem C i0 i1 = .ok (.car D)) :
    (∀ p q, p < upos.length → q < vpos.length → dense D p q = dense C (upos.getD p 0) (vpos.getD q 0))
      ∧ D.ulen = upos.length ∧ D.vlen = vpos.length ∧ WF D ∧ (Tight C → D.c = C.c) := by
  unfold getitem at h
  rw [if_neg (by omega), if_neg (by omega), if_neg (by omega), h0, h1] at h
  simp only [bind, Except.bind] at h
  by_cases e1 : (i0.isArr && i1.isArr && [upos.length] != [vpos.length]) = true
  · rw [if_pos e1] at h; simp at h
  rw [if_neg e1] at h
  by_cases e2 : (([upos.length] : List Nat).isEmpty || ([vpos.length] : List Nat).isEmpty || (i0.isArr && i1.isArr)) = true
  · rw [if_pos e2] at h; simp at h
  rw [if_neg e2] at h
  simp only [prodL, List.foldr, Nat.mul_one] at h
  have hnew : new (C.u.map (fun ui => (⟨[upos.length], ui.take upos, ui.c⟩ : NArr α)))
      (some (C.v.map (fun vi => (⟨[vpos.length], vi.take vpos, vi.c⟩ : NArr α)))) upos.length vpos.length
      = ofVecs (C.u.map (gatherV upos)) (C.v.map (gatherV vpos)) upos.length vpos.length := by
    unfold ofVecs
    congr 1
    · simp [List.map_map, Function.comp_def, DVec.toArr, gatherV, DVec.len, DVec.take]
    · simp [List.map_map, Function.comp_def, DVec.toArr, gatherV, DVec.len, DVec.take]
  rw [hnew] at h
  cases ho : ofVecs (C.u.map (gatherV upos)) (C.v.map (gatherV vpos)) upos.length vpos.length with
  | error e => rw [ho] at h; simp at h
  | ok D' =>
    rw [ho] at h
    simp only [Except.ok.injEq, GetRes.car.injEq] at h
    subst h
    obtain ⟨_, wd, d, c, su, sv, _⟩ := ofVecs_ok ho
    refine ⟨fun p q hp hq => by rw [d, dsum_gather _ _ _ _ hp hq]; rfl,
      su (Int.natCast_nonneg _), sv (Int.natCast_nonneg _), wd, fun t => ?_⟩
    rw [c, t, any_c_gather, any_c_gather]


/-! ## `__setitem__` -/

theorem setitem_nonzero_raises (C : Carrier α) (i0 i1 : Idx) : setitem C i0 i1 false = .error .ValueError := by
  simp [setitem]

theorem setitem_block_raises (C : Carrier α) {i0 i1 : Idx} (h0 : i0.isNull = false) (h1 : i1.isNull = false) :
    setitem C i0 i1 true = .error .IndexError := by
  simp [setitem, h0, h1]

/-- `A[rows, :] = 0` / `A[:, cols] = 0` : exactly the selected rows (columns) of the dense matrix become zero, in place
    on the stored vectors; `A[:, :] = 0` drops all dyads (repair 9b72248); shape and dtype unchanged -/
theorem setitem_refines {C D : Carrier α} {i0 i1 : Idx} (w : WF C) (h : setitem C i0 i1 true = .ok D) :
    (i0.isNull = true ∨ i1.isNull = true)
      ∧ (∀ i j, dense D i j =
          if (i0.isNull && i1.isNull) || zeroedSel C.ulen.toNat i0 i || zeroedSel C.vlen.toNat i1 j then 0
          else dense C i j)
      ∧ D.ulen = C.ulen ∧ D.vlen = C.vlen ∧ D.c = C.c ∧ WF D := by
  unfold setitem at h
  simp only [Bool.not_true, Bool.false_eq_true, if_false] at h
  by_cases hb : (!i0.isNull && !i1.isNull) = true
  · rw [if_pos hb] at h; simp at h
  rw [if_neg hb] at h
  have hnull : i0.isNull = true ∨ i1.isNull = true := by
    cases h0 : i0.isNull <;> cases h1 : i1.isNull <;> simp [h0, h1] at hb ⊢
  refine ⟨hnull, ?_⟩
  by_cases hboth : (i0.isNull && i1.isNull) = true
  · rw [if_pos hboth] at h
    simp only [Except.ok.injEq] at h
    subst h
    exact ⟨fun i j => by simp [hboth, dense], rfl, rfl, rfl, ⟨rfl, by simp, by simp⟩⟩
  rw [if_neg hboth] at h
  have hbf : (i0.isNull && i1.isNull) = false := by simpa using hboth
  by_cases he : (C.u.isEmpty || C.v.isEmpty) = true
  · rw [if_pos he] at h
    simp only [Except.ok.injEq] at h
    subst h
    have hz : ∀ i j, dense C i j = 0 := fun i j => by
      unfold dense
      rcases Bool.or_eq_true _ _ |>.mp he with e | e
      · rw [List.isEmpty_iff.mp e]; simp
      · rw [List.isEmpty_iff.mp e]; simp
    exact ⟨fun i j => by rw [hz]; simp, rfl, rfl, rfl, w⟩
  rw [if_neg he] at h
  obtain ⟨pu, hu', h⟩ := bind_ok_iff.mp h
  obtain ⟨pv, hv', h⟩ := bind_ok_iff.mp h
  simp only [pure, Except.pure, Except.ok.injEq] at h
  subst h
  refine ⟨fun i j => ?_, rfl, rfl, rfl, ?_⟩
  · simp only [dense]
    rw [dsum_zeroAt_left, dsum_zeroAt_right]
    simp only [zeroedSel, hu', hv', hbf]
    cases pu.contains i <;> cases pv.contains j <;> simp
  · exact wf_map_zeroAt_v (C := { C with u := C.u.map (fun x => x.zeroAt pu) }) (wf_map_zeroAt_u w pu) pv


/-- the same in numpy's terms, for EVERY accepted subscript pair (one or both full slices): `A[i0, i1] = 0` zeroes
    exactly the entries selected by BOTH subscripts (`inSel`, `:` selecting everything) -/
theorem setitem_dense_semantics {C D : Carrier α} {i0 i1 : Idx} (w : WF C)
    (h : setitem C i0 i1 true = .ok D) :
    ∀ i j, dense D i j = if inSel C.ulen.toNat i0 i && inSel C.vlen.toNat i1 j then 0 else dense C i j := by
  obtain ⟨hnull, d, _⟩ := setitem_refines w h
  intro i j
  rw [d]
  have zn : ∀ n k, zeroedSel n (.sl none none none) k = false := fun n k => by simp [zeroedSel, zeroSel, Idx.isNull]
  have zs : ∀ n (ix : Idx) k, ix.isNull = false → zeroedSel n ix k = inSel n ix k := fun n ix k hn => by
    simp only [zeroedSel, zeroSel, hn, Bool.false_eq_true, if_false, inSel]
    cases applyIdx n ix with
    | ok p => rfl
    | error e => rfl
  cases h0 : i0.isNull with
  | true =>
    have e0 := (isNull_iff i0).mp h0
    subst e0
    cases h1 : i1.isNull with
    | true =>
      have e1 := (isNull_iff i1).mp h1
      subst e1
      rw [inSel_null, inSel_null]
      by_cases hi : i < C.ulen.toNat
      · by_cases hj : j < C.vlen.toNat
        · simp [hi, hj, Idx.isNull]
        · have : dense C i j = 0 := dense_outside w (Or.inr (by omega))
          simp [hj, this, Idx.isNull]
      · have : dense C i j = 0 := dense_outside w (Or.inl (by omega))
        simp [hi, this, Idx.isNull]
    | false =>
      rw [zn, zs _ _ _ h1, inSel_null]
      by_cases hi : i < C.ulen.toNat
      · simp [hi, h1, Idx.isNull]
      · have : dense C i j = 0 := dense_outside w (Or.inl (by omega))
        simp [hi, this, h1, Idx.isNull]
  | false =>
    have h1 : i1.isNull = true := by rcases hnull with c | c; simp [h0] at c; exact c
    have e1 := (isNull_iff i1).mp h1
    subst e1
    rw [zn, zs _ _ _ h0, inSel_null]
    by_cases hj : j < C.vlen.toNat
    · simp [hj, h0]
    · have : dense C i j = 0 := dense_outside w (Or.inr (by omega))
      simp [hj, this, h0]

/-! ## `contract` : against the explicit sum `Σ_p Σ_q A[rows p, cols q] · B[p, q]` (`cspec`, `Lemmas/DyadContract.lean`)

`selIdx rows b`, `selMat mat b` are the index list / matrix of batch entry `b` (the whole operand when it is not batched),
so the two theorems cover: no matrix (trace-like `Σ_p A[rows p, cols p]`), dense matrix, row- and/or column-sliced,
and any of the three operands batched with a common (possibly multi-dimensional) batch shape. -/

/-- non-batch mode returns one number -/
theorem contract_nobatch_refines {C : Carrier α} {mat : Option (NArr α)} {rows cols : Option IArr} {r : CRes α}
    {rp cp : Option (List Nat)} (w : WF C)
    (hb : batchShape mat rows cols = .ok none)
    (hr : normAll C.ulen.toNat (selIdx rows 0) = .ok rp) (hc : normAll C.vlen.toNat (selIdx cols 0) = .ok cp)
    (h : contract C mat rows cols = .ok r) :
    r.shape = [] ∧ r.data = [cspec (dense C) (selLen C.ulen.toNat rp) rp cp (selMat mat 0)]
      ∧ r.pyfloat = (C.u.isEmpty || C.v.isEmpty) := by
  unfold contract at h
  simp only [hb] at h
  obtain ⟨bs, hbs, h⟩ := bind_ok_iff.mp h
  simp only [Except.ok.injEq] at hbs
  subst hbs
  simp only at h
  obtain ⟨ts, hts, h⟩ := bind_ok_iff.mp h
  simp only [pure, Except.pure, Except.ok.injEq] at h
  subst h
  have hlu : ∀ x ∈ C.u, x.len = C.ulen.toNat := fun x hx => by have := w.ul x hx; omega
  have hlv : ∀ x ∈ C.v, x.len = C.vlen.toNat := fun x hx => by have := w.vl x hx; omega
  refine ⟨rfl, ?_, rfl⟩
  rw [cterm_sum hr hc (by simp) hlu hlv hts]; rfl

/-- batch mode returns an array of the batch shape whose entry `b` is the explicit sum for batch entry `b`
    (operand shapes conforming in the plain sense: `einsum` additionally broadcasts dimensions of size 1, which the
    model reproduces but the explicit sum does not describe); dtype = promotion of the matrix and the carrier -/
theorem contract_batch_refines {C : Carrier α} {mat : Option (NArr α)} {rows cols : Option IArr} {r : CRes α}
    {bsz : List Nat} (w : WF C)
    (hb : batchShape mat rows cols = .ok (some bsz))
    (h : contract C mat rows cols = .ok r) :
    r.shape = bsz ∧ r.pyfloat = false ∧ r.data.length = prodL bsz
      ∧ r.c = (optC mat || C.c)
      ∧ ∀ b, b < prodL bsz → ∀ rp cp, normAll C.ulen.toNat (selIdx rows b) = .ok rp →
          normAll C.vlen.toNat (selIdx cols b) = .ok cp →
          conform (selLen C.ulen.toNat rp) (selLen C.vlen.toNat cp) (selMat mat b) →
          at0 r.data b = cspec (dense C) (selLen C.ulen.toNat rp) rp cp (selMat mat b) := by
  unfold contract at h
  simp only [hb] at h
  obtain ⟨bs, hbs, h⟩ := bind_ok_iff.mp h
  simp only [Except.ok.injEq] at hbs
  subst hbs
  simp only at h
  obtain ⟨ts, hts, h⟩ := bind_ok_iff.mp h
  simp only [pure, Except.pure, Except.ok.injEq] at h
  subst h
  have hlu : ∀ x ∈ C.u, x.len = C.ulen.toNat := fun x hx => by have := w.ul x hx; omega
  have hlv : ∀ x ∈ C.v, x.len = C.vlen.toNat := fun x hx => by have := w.vl x hx; omega
  refine ⟨rfl, rfl, by simp, rfl, fun b hb' rp cp hr hc hcf => ?_⟩
  simp only
  rw [at0_tab _ _ hb']
  have hs := batch_slice (F := fun p b => cterm true p.1 p.2 (selIdx rows b) (selIdx cols b) (selMat mat b)) hts b hb'
  rw [cterm_sum hr hc (fun _ => hcf) hlu hlv hs]; rfl

/-- `contract()` without arguments is the trace-like sum `Σ_p A[p, p]` over the row count -/
theorem contract_trace {C : Carrier α} {r : CRes α} (w : WF C)
    (h : contract C none none none = .ok r) :
    r.data = [rsum C.ulen.toNat (fun p => dense C p p)] := by
  have := (contract_nobatch_refines (rp := none) (cp := none) w rfl rfl rfl h).2.1
  simpa [cspec, selMat, selLen, selPos] using this


/-! ## construction -/

/-- `DyadCarrier(u, v, shape)` from lists of vectors / blocks: the dense matrix is `Σ_k (Σ-leading u_k) ⊗ (Σ-leading v_k)`
    (blocks are summed over all leading axes, 0-dim entries promoted, zero vectors dropped without effect), an unset
    dimension is fixed by the first dyad, the dtype is the promotion of ALL arguments (also dropped ones, 8e372f7) -/
theorem new_refines {u : List (NArr α)} {v : Option (List (NArr α))} {ul vl : Int} {D : Carrier α}
    (h : new u v ul vl = .ok D) :
    absM D = dNew u v ul vl ∧ WF D ∧ D.c = (pairsOf u v).any (fun p => p.1.c || p.2.c)
      ∧ u.length = (v.getD u).length := by
  unfold new addDyad at h
  split at h
  · rename_i C hC
    simp only at hC
    split_ifs at hC with hl
    · simp at hC
    · simp only [ne_eq, not_not] at hl
      simp only [Except.ok.injEq] at h
      subst h
      obtain ⟨ic, iu, iv, ie, il, iw⟩ := addLoop_ok hC
      obtain ⟨w, d⟩ := iw (wf_empty ul vl)
      refine ⟨abs_eq ?_ ?_ (fun i j => by rw [d]; simp [dNew, pairsOf]), w, by rw [ic]; simp [empty, pairsOf], hl⟩
      · simp only [dNew, fixLen, pairsOf]
        by_cases h0 : ul < 0
        · rw [if_pos h0]
          cases hp : u.zip (v.getD u) with
          | nil => rw [ie hp]; rfl
          | cons p ps => simp only [List.head?_cons, Option.map_some]; exact ((il p (by rw [hp]; simp)).1).symm
        · rw [if_neg h0]; exact iu (not_lt.mp h0)
      · simp only [dNew, fixLen, pairsOf]
        by_cases h0 : vl < 0
        · rw [if_pos h0]
          cases hp : u.zip (v.getD u) with
          | nil => rw [ie hp]; rfl
          | cons p ps => simp only [List.head?_cons, Option.map_some]; exact ((il p (by rw [hp]; simp)).2).symm
        · rw [if_neg h0]; exact iv (not_lt.mp h0)
  · simp at h

/-- mismatching list lengths are rejected with `TypeError` before anything is changed -/
theorem addDyad_length_mismatch (C : Carrier α) {u : List (NArr α)} {v : Option (List (NArr α))}
    (fac : Option (Cx α)) (h : u.length ≠ (v.getD u).length) : addDyad C u v fac = (C, some .TypeError) := by
  simp [addDyad, h]

/-- public `add_dyad(u, v, fac)` on a carrier with a definite shape: `A += fac · Σ_k (Σ-leading u_k) ⊗ (Σ-leading v_k)` -/
theorem addDyad_refines {C R : Carrier α} {u : List (NArr α)} {v : Option (List (NArr α))} {fac : Option (Cx α)}
    (w : WF C) (hs : shaped C) (h : addDyad C u v fac = (R, none)) :
    absM R = ⟨C.ulen, C.vlen, fun i j => dense C i j + psum fac (pairsOf u v) i j⟩ ∧ WF R
      ∧ R.c = (C.c || (pairsOf u v).any (fun p => p.1.c || p.2.c)) := by
  unfold addDyad at h
  simp only at h
  split_ifs at h with hl
  · simp at h
  · obtain ⟨ic, iu, iv, _, _, iw⟩ := addLoop_ok h
    obtain ⟨w', d⟩ := iw w
    exact ⟨abs_eq (iu hs.1) (iv hs.2) (fun i j => d i j), w', ic⟩


/-! ## mixed dense / carrier addition, sparse contraction, the Mathlib view of the abstraction -/

/-- `self + a`, `a + self` (`negA = negS = false`), `self - a` (`negA`), `a - self` (`negS`) for a dense array `a`
    broadcast to the carrier's shape: a DENSE result, entry-wise `± a[i,j] ± A[i,j]`, promoted dtype -/
theorem addA_refines {C : Carrier α} {a r : NArr α} {negA negS : Bool} (h : addA C a negA negS = .ok r) :
    ∃ f, broadcast2 a C.ulen C.vlen = .ok f ∧ r.shape = [C.ulen.toNat, C.vlen.toNat] ∧ r.c = (a.c || C.c)
      ∧ ∀ i j, i < C.ulen.toNat → j < C.vlen.toNat →
          at0 r.data (i * C.vlen.toNat + j)
            = (if negA then - f i j else f i j) + (if negS then - dense C i j else dense C i j) := by
  unfold addA at h
  obtain ⟨f, hf, h⟩ := bind_ok_iff.mp h
  simp only [pure, Except.pure, Except.ok.injEq] at h
  subst h
  refine ⟨f, hf, rfl, rfl, fun i j hi hj => ?_⟩
  obtain ⟨h1, h2, h3⟩ := idx2 hi hj
  simp only
  rw [at0_tab _ _ h1, h2, h3, (todense_refines C).2.2.2 i j hi hj]

/-- a full-shape operand is used entry by entry (C order) -/
theorem broadcast2_full {a : NArr α} {m n : Nat} (hs : a.shape = [m, n]) :
    broadcast2 a m n = .ok (fun i j => at0 a.data (i * n + j)) ∨ (m = 1 ∨ n = 1) := by
  by_cases h1 : m = 1
  · exact Or.inr (Or.inl h1)
  by_cases h2 : n = 1
  · exact Or.inr (Or.inr h2)
  left
  unfold broadcast2
  rw [if_neg (by omega), hs]
  simp [h1, h2]

/-- `contract_multi(mats)` on COO data (duplicates are NOT summed first, negative indices wrap): entry `k` is
    `Σ_e data_e · A[row_e, col_e]`; `None` entries give 0; dtype = promotion of the carrier and the FIRST matrix -/
theorem contractMulti_refines {C : Carrier α} {mats : List (MatArg α)} {r : NArr α}
    (h : contractMulti C mats = .ok r) :
    r.shape = [mats.length] ∧ r.data.length = mats.length
      ∧ ∀ k (hk : k < mats.length),
          (∀ m, mats[k] = .coo m → at0 r.data k = cooSpec (dense C) C.ulen.toNat C.vlen.toNat m)
          ∧ (mats[k] = .none → at0 r.data k = 0) := by
  unfold contractMulti at h
  obtain ⟨c0, _, h⟩ := bind_ok_iff.mp h
  by_cases he : (C.u.isEmpty || C.v.isEmpty) = true
  · rw [if_pos he] at h
    simp only [pure, Except.pure, Except.ok.injEq] at h
    subst h
    have hz : dense C = fun _ _ => 0 := by
      funext i j
      unfold dense
      rcases Bool.or_eq_true _ _ |>.mp he with e | e
      · rw [List.isEmpty_iff.mp e]; simp
      · rw [List.isEmpty_iff.mp e]; simp
    have h0 : ∀ k, at0 (mats.map (fun _ => (0 : Cx α))) k = 0 := fun k => by
      apply at0_of_all_zero
      intro z hz'
      simp only [List.mem_map] at hz'
      obtain ⟨_, _, rfl⟩ := hz'
      rfl
    refine ⟨rfl, by simp, fun k hk => ⟨fun m _ => ?_, fun _ => h0 k⟩⟩
    simp only
    rw [h0 k, hz, cooSpec_zero]
  · rw [if_neg he] at h
    obtain ⟨vals, hv, h⟩ := bind_ok_iff.mp h
    simp only [pure, Except.pure, Except.ok.injEq] at h
    subst h
    have hlen' : ∀ (l : List (MatArg α)) (vs : List (Cx α)), l.mapM (multiVal C) = .ok vs → vs.length = l.length := by
      intro l
      induction l with
      | nil => intro vs hvs; rw [mapM_nil_ok] at hvs; subst hvs; rfl
      | cons a l ih =>
        intro vs hvs
        obtain ⟨b, bs, _, hbs, rfl⟩ := mapM_cons_ok.mp hvs
        simp [ih bs hbs]
    have hlen := hlen' mats vals hv
    refine ⟨rfl, hlen, fun k hk => ?_⟩
    have hg := mapM_getD hv k hk
    constructor
    · intro m hm
      rw [hm] at hg
      simp only [multiVal] at hg
      obtain ⟨ts, hts, hg⟩ := bind_ok_iff.mp hg
      simp only [pure, Except.pure, Except.ok.injEq] at hg
      simp only
      rw [← hg, coo_entries_sum hts]; rfl
    · intro hm
      rw [hm] at hg
      simp only [multiVal, Except.ok.injEq] at hg
      exact hg.symm

/-- the abstraction in Mathlib's terms: the dense matrix is the sum of the outer products `vecMulVec u_k v_k` -/
theorem dense_eq_sum_vecMulVec (C : Carrier α) (m n : Nat) :
    (Matrix.of fun (i : Fin m) (j : Fin n) => dense C i j)
      = (List.zipWith (fun (u v : DVec α) =>
          Matrix.vecMulVec (fun i : Fin m => u.get i) (fun j : Fin n => v.get j)) C.u C.v).sum := by
  unfold dense
  generalize C.u = us
  generalize C.v = vs
  induction us generalizing vs with
  | nil => ext i j; simp
  | cons u us ih => cases vs with
    | nil => ext i j; simp
    | cons v vs =>
      rw [List.zipWith_cons_cons, List.sum_cons, ← ih vs]
      ext i j
      simp [Matrix.vecMulVec_apply]

/-! ## programs: single-step simulation, refinement of whole programs, purity -/

/-- every unary operation, at the level of the abstraction -/
theorem unop_refines {op : UnOp} {C D : Carrier α} (w : WF C) (h : unop op C = .ok D) :
    absM D = dUn op (absM C) ∧ WF D := by
  cases op with
  | copy => obtain ⟨d, s1, s2, wd, _⟩ := copy_refines w h; exact ⟨abs_eq s1 s2 d, wd⟩
  | pos => obtain ⟨d, s1, s2, wd, _⟩ := copy_refines w h; exact ⟨abs_eq s1 s2 d, wd⟩
  | neg => obtain ⟨d, s1, s2, wd, _⟩ := neg_refines w h; exact ⟨abs_eq s1 s2 d, wd⟩
  | conj => obtain ⟨d, s1, s2, wd, _⟩ := conj_refines w h; exact ⟨abs_eq s1 s2 d, wd⟩
  | real => obtain ⟨d, s1, s2, wd, _⟩ := real_refines w h; exact ⟨abs_eq s1 s2 d, wd⟩
  | imag => obtain ⟨d, s1, s2, wd, _⟩ := imag_refines w h; exact ⟨abs_eq s1 s2 d, wd⟩
  | transpose => obtain ⟨d, s1, s2, wd, _⟩ := transpose_refines w h; exact ⟨abs_eq s1 s2 d, wd⟩

/-- ONE instruction: if it does not raise, the abstraction of the new register file is the dense step applied to the
    abstraction of the old one, and all carriers stay well-formed -/
theorem step_refines {env : Env α} (i : Instr α) (wf : ∀ C ∈ env, WF C) (adm : Adm env i)
    (hok : (step env i).2.isOk = true) :
    (step env i).1.map absM = dstep (env.map absM) i ∧ ∀ C ∈ (step env i).1, WF C := by
  cases i with
  | new u v ul vl =>
    simp only [step, dstep] at hok ⊢
    exact push_sim wf hok (fun D hD => by obtain ⟨a, w, _⟩ := new_refines hD; exact ⟨a, w⟩)
  | addDyad r u v fac =>
    simp only [step, dstep, List.getElem?_map] at hok ⊢
    cases h : env[r]? with
    | none => simp [h, Out.isOk] at hok
    | some C =>
      simp only [h, Option.map_some] at hok ⊢
      have wC := wf C (mem_of_getElem? h)
      refine inplace_sim wf hok (fun he => ?_)
      obtain ⟨a, w, _⟩ := addDyad_refines (R := (addDyad C u v fac).1) wC (withReg_elim adm h) (Prod.ext rfl he)
      exact ⟨a, w⟩
  | getitem r i0 i1 =>
    simp only [step, dstep, List.getElem?_map] at hok ⊢
    cases h : env[r]? with
    | none => simp [h, Out.isOk] at hok
    | some C =>
      simp only [h, Option.map_some] at hok ⊢
      have wC := wf C (mem_of_getElem? h)
      obtain ⟨hiff, a0', a1'⟩ := withReg_elim (P := fun C => (C.ulen < 0 ↔ C.vlen < 0) ∧ idxOK C.ulen.toNat i0 (i0.isArr && i1.isArr) ∧ idxOK C.vlen.toNat i1 (i0.isArr && i1.isArr)) adm h
      have a0 := fun sh p => idxOK_elim a0' (sh := sh) (p := p)
      have a1 := fun sh p => idxOK_elim a1' (sh := sh) (p := p)
      by_cases hun : C.ulen < 0 ∧ C.vlen < 0
      · rw [getitem_unset C hun] at hok ⊢
        simp only [absM, hun, and_self, if_true, List.map_append, List.map_cons, List.map_nil]
        refine ⟨by congr 1, fun D hD => ?_⟩
        rcases List.mem_append.mp hD with h' | h'
        · exact wf D h'
        · simp only [List.mem_singleton] at h'; subst h'; exact wf_empty _ _
      · have hu : 0 ≤ C.ulen := by
          by_contra hc; exact hun ⟨by omega, hiff.mp (by omega)⟩
        have hv : 0 ≤ C.vlen := by
          by_contra hc; exact hun ⟨hiff.mpr (by omega), by omega⟩
        simp only [absM, hun, if_false]
        cases hg : getitem C i0 i1 with
        | error e => simp [hg, Out.isOk] at hok
        | ok res =>
          cases res with
          | arr a =>
            obtain ⟨ush, upos, vsh, vpos, e0, e1, _⟩ := getitem_values_refines hu hv hg
            simp only [e0, e1]
            -- the value branch was taken
            have hbr : (ush.isEmpty || vsh.isEmpty || (i0.isArr && i1.isArr)) = true := by
              unfold getitem at hg
              rw [if_neg (by omega), if_neg (by omega), if_neg (by omega), e0, e1] at hg
              simp only [bind, Except.bind] at hg
              by_cases c1 : (i0.isArr && i1.isArr && ush != vsh) = true
              · rw [if_pos c1] at hg; simp at hg
              · rw [if_neg c1] at hg
                by_contra c2
                rw [if_neg c2] at hg
                split at hg <;> simp at hg
            rw [if_pos hbr]
            exact ⟨rfl, wf⟩
          | car D =>
            -- the carrier branch: both selections are one-dimensional by admissibility
            have hg' := hg
            unfold getitem at hg'
            rw [if_neg (by omega), if_neg (by omega), if_neg (by omega)] at hg'
            obtain ⟨⟨ush, upos⟩, e0, hg'⟩ := bind_ok_iff.mp hg'
            obtain ⟨⟨vsh, vpos⟩, e1, hg'⟩ := bind_ok_iff.mp hg'
            simp only at hg'
            have hbr : ¬ (ush.isEmpty || vsh.isEmpty || (i0.isArr && i1.isArr)) = true := by
              intro c2
              by_cases c1 : (i0.isArr && i1.isArr && ush != vsh) = true
              · rw [if_pos c1] at hg'; simp at hg'
              · rw [if_neg c1, if_pos c2] at hg'; simp at hg'
            simp only [e0, e1, if_neg hbr]
            have np : (i0.isArr && i1.isArr) = false := by
              cases hh : (i0.isArr && i1.isArr) with
              | false => rfl
              | true => exact absurd (by simp [hh]) hbr
            have s0 : ush = [upos.length] := by
              rcases a0 ush upos e0 with c | c | c
              · exact absurd (by simp [c]) hbr
              · exact c
              · rw [np] at c; exact absurd c (by simp)
            have s1 : vsh = [vpos.length] := by
              rcases a1 vsh vpos e1 with c | c | c
              · exact absurd (by simp [c]) hbr
              · exact c
              · rw [np] at c; exact absurd c (by simp)
            subst s0; subst s1
            obtain ⟨d, t1, t2, wd, _⟩ := getitem_carrier_refines hu hv e0 e1 hg
            simp only [List.map_append, List.map_cons, List.map_nil]
            refine ⟨?_, fun E hE => ?_⟩
            · congr 1
              congr 1
              refine abs_eq t1 t2 (fun p q => ?_)
              simp only
              split_ifs with hpq
              · exact d p q hpq.1 hpq.2
              · apply dense_outside wd
                rw [t1, t2]
                by_cases hp : p < upos.length
                · right; have : ¬ q < vpos.length := fun hq => hpq ⟨hp, hq⟩; omega
                · left; omega
            · rcases List.mem_append.mp hE with h' | h'
              · exact wf E h'
              · simp only [List.mem_singleton] at h'; subst h'; exact wd
  | setitem r i0 i1 z =>
    simp only [step, dstep, List.getElem?_map] at hok ⊢
    cases h : env[r]? with
    | none => simp [h, Out.isOk] at hok
    | some C =>
      simp only [h, Option.map_some] at hok ⊢
      have wC := wf C (mem_of_getElem? h)
      cases hz : z with
      | false => simp [hz, setitem_nonzero_raises, Out.isOk] at hok
      | true =>
        rw [hz] at hok
        cases hs : setitem C i0 i1 true with
        | error e => simp [hs, Out.isOk] at hok
        | ok D =>
          obtain ⟨_, _, s1, s2, _, wd⟩ := setitem_refines wC hs
          have d := setitem_dense_semantics wC hs
          simp only [List.map_set]
          refine ⟨?_, fun E hE => ?_⟩
          · congr 1
            exact abs_eq s1 s2 (fun i j => by rw [d]; rfl)
          · rcases List.mem_or_eq_of_mem_set hE with h' | h'
            · exact wf E h'
            · subst h'; exact wd
  | un op r =>
    simp only [step, dstep, List.getElem?_map] at hok ⊢
    cases h : env[r]? with
    | none => simp [h, Out.isOk] at hok
    | some C =>
      simp only [h, Option.map_some] at hok ⊢
      exact push_sim wf hok (fun D hD => unop_refines (wf C (mem_of_getElem? h)) hD)
  | iadd r s =>
    simp only [step, dstep, List.getElem?_map] at hok ⊢
    cases h : env[r]? with
    | none => simp [h, Out.isOk] at hok
    | some C =>
      cases h' : env[s]? with
      | none => simp [h, h', Out.isOk] at hok
      | some O =>
        simp only [h, h', Option.map_some] at hok ⊢
        have wC := wf C (mem_of_getElem? h)
        refine inplace_sim wf hok (fun he => ?_)
        obtain ⟨d, w, t1, t2, _⟩ := iadd_refines (R := (iadd C O).1) wC (Prod.ext rfl he)
        exact ⟨abs_eq (t1 (withReg_elim adm h).1) (t2 (withReg_elim adm h).2) d, w⟩
  | isub r s =>
    simp only [step, dstep, List.getElem?_map] at hok ⊢
    cases h : env[r]? with
    | none => simp [h, Out.isOk] at hok
    | some C =>
      cases h' : env[s]? with
      | none => simp [h, h', Out.isOk] at hok
      | some O =>
        simp only [h, h', Option.map_some] at hok ⊢
        have wC := wf C (mem_of_getElem? h)
        refine inplace_sim wf hok (fun he => ?_)
        obtain ⟨d, w, t1, t2, _⟩ := isub_refines (R := (isub C O).1) wC (Prod.ext rfl he)
        exact ⟨abs_eq (t1 (withReg_elim adm h).1) (t2 (withReg_elim adm h).2) d, w⟩
  | addS r z =>
    simp only [step, dstep, List.getElem?_map] at hok ⊢
    cases h : env[r]? with
    | none => simp [h, Out.isOk] at hok
    | some C =>
      simp only [h, Option.map_some] at hok ⊢
      refine push_sim wf hok (fun D hD => ?_)
      obtain ⟨_, d, s1, s2, wd⟩ := addS_refines (wf C (mem_of_getElem? h)) hD
      exact ⟨abs_eq s1 s2 d, wd⟩
  | subS r z =>
    simp only [step, dstep, List.getElem?_map] at hok ⊢
    cases h : env[r]? with
    | none => simp [h, Out.isOk] at hok
    | some C =>
      simp only [h, Option.map_some] at hok ⊢
      refine push_sim wf hok (fun D hD => ?_)
      obtain ⟨_, d, s1, s2, wd⟩ := addS_refines (wf C (mem_of_getElem? h)) hD
      exact ⟨abs_eq s1 s2 d, wd⟩
  | rsubS z r =>
    simp only [step, dstep, List.getElem?_map] at hok ⊢
    cases h : env[r]? with
    | none => simp [h, Out.isOk] at hok
    | some C =>
      simp only [h, Option.map_some] at hok ⊢
      refine push_sim wf hok (fun D hD => ?_)
      obtain ⟨_, d, s1, s2, wd⟩ := rsubS_refines (wf C (mem_of_getElem? h)) hD
      exact ⟨abs_eq s1 s2 d, wd⟩
  | addD r s =>
    simp only [step, dstep, List.getElem?_map] at hok ⊢
    cases h : env[r]? with
    | none => simp [h, Out.isOk] at hok
    | some C =>
      cases h' : env[s]? with
      | none => simp [h, h', Out.isOk] at hok
      | some O =>
        simp only [h, h', Option.map_some] at hok ⊢
        refine push_sim wf hok (fun D hD => ?_)
        obtain ⟨d, w, t1, t2, _⟩ := addD_refines (wf C (mem_of_getElem? h)) hD
        exact ⟨abs_eq (t1 (withReg_elim adm h).1) (t2 (withReg_elim adm h).2) d, w⟩
  | subD r s =>
    simp only [step, dstep, List.getElem?_map] at hok ⊢
    cases h : env[r]? with
    | none => simp [h, Out.isOk] at hok
    | some C =>
      cases h' : env[s]? with
      | none => simp [h, h', Out.isOk] at hok
      | some O =>
        simp only [h, h', Option.map_some] at hok ⊢
        refine push_sim wf hok (fun D hD => ?_)
        obtain ⟨d, w, t1, t2⟩ := subD_refines (wf C (mem_of_getElem? h)) (wf O (mem_of_getElem? h')) hD
        exact ⟨abs_eq (t1 (withReg_elim adm h).1) (t2 (withReg_elim adm h).2) d, w⟩
  | mul r z zc =>
    simp only [step, dstep, List.getElem?_map] at hok ⊢
    cases h : env[r]? with
    | none => simp [h, Out.isOk] at hok
    | some C =>
      simp only [h, Option.map_some] at hok ⊢
      refine push_sim wf hok (fun D hD => ?_)
      obtain ⟨d, s1, s2, wd, _⟩ := mul_refines (wf C (mem_of_getElem? h)) hD
      exact ⟨abs_eq s1 s2 d, wd⟩
  | rmul z zc r =>
    simp only [step, dstep, List.getElem?_map] at hok ⊢
    cases h : env[r]? with
    | none => simp [h, Out.isOk] at hok
    | some C =>
      simp only [h, Option.map_some] at hok ⊢
      refine push_sim wf hok (fun D hD => ?_)
      obtain ⟨d, s1, s2, wd, _⟩ := rmul_refines (wf C (mem_of_getElem? h)) hD
      exact ⟨abs_eq s1 s2 d, wd⟩
  | matmulM r B =>
    simp only [step, dstep, List.getElem?_map] at hok ⊢
    cases h : env[r]? with
    | none => simp [h, Out.isOk] at hok
    | some C =>
      simp only [h, Option.map_some] at hok ⊢
      obtain ⟨m, n, hs⟩ : ∃ m n, B.shape = [m, n] := by
        have : B.shape.length = 2 := adm.1
        match hB : B.shape, this with
        | [m, n], _ => exact ⟨m, n, rfl⟩
      refine push_sim wf hok (fun D hD => ?_)
      obtain ⟨d, s1, s2, wd, _⟩ := matmulM_refines hs (wf C (mem_of_getElem? h)) hD
      refine ⟨abs_eq s1 (by rw [s2, hs]; rfl) (fun i j => ?_), wd⟩
      simp only [absM, hs, List.getD_cons_zero, List.getD_cons_succ]
      split_ifs with hj
      · exact d i j hj
      · exact dense_outside wd (Or.inr (by rw [s2]; omega))
  | rmatmulM B r =>
    simp only [step, dstep, List.getElem?_map] at hok ⊢
    cases h : env[r]? with
    | none => simp [h, Out.isOk] at hok
    | some C =>
      simp only [h, Option.map_some] at hok ⊢
      obtain ⟨m, n, hs⟩ : ∃ m n, B.shape = [m, n] := by
        have : B.shape.length = 2 := adm.1
        match hB : B.shape, this with
        | [m, n], _ => exact ⟨m, n, rfl⟩
      refine push_sim wf hok (fun D hD => ?_)
      obtain ⟨d, s1, s2, wd, _⟩ := rmatmulM_refines hs (wf C (mem_of_getElem? h)) hD
      refine ⟨abs_eq (by rw [s1, hs]; rfl) s2 (fun i j => ?_), wd⟩
      simp only [absM, hs, List.getD_cons_zero, List.getD_cons_succ]
      split_ifs with hi
      · exact d i j hi
      · exact dense_outside wd (Or.inl (by rw [s1]; omega))
  | matmulD r s =>
    simp only [step, dstep, List.getElem?_map] at hok ⊢
    cases h : env[r]? with
    | none => simp [h, Out.isOk] at hok
    | some C =>
      cases h' : env[s]? with
      | none => simp [h, h', Out.isOk] at hok
      | some O =>
        simp only [h, h', Option.map_some] at hok ⊢
        refine push_sim wf hok (fun D hD => ?_)
        obtain ⟨d, s1, s2, wd⟩ := matmulD_refines (wf C (mem_of_getElem? h)) (withReg_elim (P := fun O => 0 ≤ O.vlen ∧ withReg env r (fun C => C.vlen = O.ulen)) adm h').1 hD
        refine ⟨abs_eq s1 s2 (fun i j => ?_), wd⟩
        simp only [absM]
        by_cases hj : j < O.vlen.toNat
        · simp only [hj, ↓reduceIte]; exact d i j hj
        · simp only [hj, ↓reduceIte]; exact dense_outside wd (Or.inr (by rw [s2]; omega))
  | addA r a =>
    simp only [step, dstep]
    cases h : env[r]? with
    | none => exact ⟨rfl, wf⟩
    | some C => simp only [arrRes]; split <;> exact ⟨rfl, wf⟩
  | subA r a =>
    simp only [step, dstep]
    cases h : env[r]? with
    | none => exact ⟨rfl, wf⟩
    | some C => simp only [arrRes]; split <;> exact ⟨rfl, wf⟩
  | rsubA a r =>
    simp only [step, dstep]
    cases h : env[r]? with
    | none => exact ⟨rfl, wf⟩
    | some C => simp only [arrRes]; split <;> exact ⟨rfl, wf⟩
  | contract r mat rows cols =>
    simp only [step, dstep]
    cases h : env[r]? with
    | none => exact ⟨rfl, wf⟩
    | some C => simp only; split <;> exact ⟨rfl, wf⟩
  | contractMulti r mats =>
    simp only [step, dstep]
    cases h : env[r]? with
    | none => exact ⟨rfl, wf⟩
    | some C => simp only [arrRes]; split <;> exact ⟨rfl, wf⟩
  | todense r =>
    simp only [step, dstep]
    cases h : env[r]? <;> exact ⟨rfl, wf⟩
  | diagonal r k =>
    simp only [step, dstep]
    cases h : env[r]? <;> exact ⟨rfl, wf⟩
  | dotV r x =>
    simp only [step, dstep]
    cases h : env[r]? with
    | none => exact ⟨rfl, wf⟩
    | some C => simp only [arrRes]; split <;> exact ⟨rfl, wf⟩
  | rdotV x r =>
    simp only [step, dstep]
    cases h : env[r]? with
    | none => exact ⟨rfl, wf⟩
    | some C => simp only [arrRes]; split <;> exact ⟨rfl, wf⟩


/-- **refinement of whole programs**: by induction over ANY finite program of DyadCarrier operations, if no instruction
    raises (and the dense operations are defined, `AdmRun`), the abstraction (shape + dense matrix) of every register
    after the program is what the dense program computes on the abstractions of the initial registers. -/
theorem dyad_program_refines_dense (prog : List (Instr α)) : ∀ (env : Env α), (∀ C ∈ env, WF C) → AdmRun env prog →
    (∀ o ∈ (run env prog).2, o.isOk = true) →
    (run env prog).1.map absM = drun (env.map absM) prog ∧ ∀ C ∈ (run env prog).1, WF C := by
  induction prog with
  | nil => intro env wf _ _; exact ⟨rfl, wf⟩
  | cons i rest ih =>
    intro env wf adm hok
    obtain ⟨a1, a2⟩ := adm
    have hrun : run env (i :: rest) = ((run (step env i).1 rest).1, (step env i).2 :: (run (step env i).1 rest).2) := rfl
    rw [hrun] at hok ⊢
    obtain ⟨s1, s2⟩ := step_refines i wf a1 (hok _ (by simp))
    obtain ⟨r1, r2⟩ := ih (step env i).1 s2 a2 (fun o ho => hok o (by simp [ho]))
    refine ⟨?_, r2⟩
    simp only [drun]
    rw [← s1]; exact r1

/-- the same, for a program started on no registers at all (every carrier is then created by the program) -/
theorem dyad_program_refines_dense_closed (prog : List (Instr α)) (adm : AdmRun ([] : Env α) prog)
    (hok : ∀ o ∈ (run ([] : Env α) prog).2, o.isOk = true) :
    (run ([] : Env α) prog).1.map absM = drun [] prog :=
  (dyad_program_refines_dense prog [] (by simp) adm hok).1

/-- **purity**: an instruction changes no register other than the target of an in-place operation (`add_dyad`, `+=`,
    `-=`, `__setitem__`), whether it succeeds or raises; results are NEW registers appended at the end -/
theorem dyad_ops_pure (env : Env α) (i : Instr α) (q : Nat) (hq : q < env.length) (hne : i.target ≠ some q) :
    (step env i).1[q]? = env[q]? ∧ env.length ≤ (step env i).1.length := by
  have hp : ∀ res : Except Err (Carrier α), (pushRes env res).1[q]? = env[q]? ∧ env.length ≤ (pushRes env res).1.length :=
    fun res => by
      cases res with
      | ok D => simp [pushRes, List.getElem?_append_left hq]
      | error e => simp [pushRes]
  have ha : ∀ res : Except Err (NArr α), (arrRes env res).1 = env := fun res => by cases res <;> rfl
  have hi : ∀ (r : Nat) (res : Carrier α × Option Err), r ≠ q →
      (inplace env r res).1[q]? = env[q]? ∧ env.length ≤ (inplace env r res).1.length := fun r res hr => by
    simp [inplace, List.getElem?_set_ne hr]
  cases i with
  | new u v ul vl => exact hp _
  | addDyad r u v fac =>
    simp only [step]
    cases env[r]? with
    | none => simp
    | some C => exact hi r _ (fun e => hne (by simp [Instr.target, e]))
  | getitem r i0 i1 =>
    simp only [step]
    cases env[r]? with
    | none => simp
    | some C =>
      simp only
      split
      · simp [List.getElem?_append_left hq]
      · simp
      · simp
  | setitem r i0 i1 z =>
    simp only [step]
    cases env[r]? with
    | none => simp
    | some C =>
      simp only
      split
      · simp [List.getElem?_set_ne (fun e : r = q => hne (by simp [Instr.target, e]))]
      · simp
  | un op r => simp only [step]; cases env[r]? <;> first | exact hp _ | simp
  | iadd r s =>
    simp only [step]
    cases env[r]? <;> cases env[s]? <;> first | exact hi r _ (fun e => hne (by simp [Instr.target, e])) | simp
  | isub r s =>
    simp only [step]
    cases env[r]? <;> cases env[s]? <;> first | exact hi r _ (fun e => hne (by simp [Instr.target, e])) | simp
  | addS r z => simp only [step]; cases env[r]? <;> first | exact hp _ | simp
  | addD r s => simp only [step]; cases env[r]? <;> cases env[s]? <;> first | exact hp _ | simp
  | addA r a => simp only [step]; cases env[r]? <;> simp [ha]
  | subS r z => simp only [step]; cases env[r]? <;> first | exact hp _ | simp
  | subD r s => simp only [step]; cases env[r]? <;> cases env[s]? <;> first | exact hp _ | simp
  | subA r a => simp only [step]; cases env[r]? <;> simp [ha]
  | rsubS z r => simp only [step]; cases env[r]? <;> first | exact hp _ | simp
  | rsubA a r => simp only [step]; cases env[r]? <;> simp [ha]
  | mul r z zc => simp only [step]; cases env[r]? <;> first | exact hp _ | simp
  | rmul z zc r => simp only [step]; cases env[r]? <;> first | exact hp _ | simp
  | contract r mat rows cols =>
    simp only [step]
    cases env[r]? with
    | none => simp
    | some C => simp only; split <;> simp
  | contractMulti r mats => simp only [step]; cases env[r]? <;> simp [ha]
  | todense r => simp only [step]; cases env[r]? <;> simp
  | diagonal r k => simp only [step]; cases env[r]? <;> simp
  | dotV r x => simp only [step]; cases env[r]? <;> simp [ha]
  | rdotV x r => simp only [step]; cases env[r]? <;> simp [ha]
  | matmulM r M => simp only [step]; cases env[r]? <;> first | exact hp _ | simp
  | rmatmulM M r => simp only [step]; cases env[r]? <;> first | exact hp _ | simp
  | matmulD r s => simp only [step]; cases env[r]? <;> cases env[s]? <;> first | exact hp _ | simp

/-- whole programs: a register that is not the in-place target of any instruction of the program is unchanged -/
theorem dyad_program_pure (prog : List (Instr α)) : ∀ (env : Env α) (q : Nat), q < env.length →
    (∀ i ∈ prog, i.target ≠ some q) → (run env prog).1[q]? = env[q]? := by
  induction prog with
  | nil => intro env q _ _; rfl
  | cons i rest ih =>
    intro env q hq hne
    have hrun : (run env (i :: rest)).1 = (run (step env i).1 rest).1 := rfl
    obtain ⟨p1, p2⟩ := dyad_ops_pure env i q hq (hne i (by simp))
    rw [hrun, ih (step env i).1 q (by omega) (fun j hj => hne j (by simp [hj])), p1]


/-! ## no spurious exceptions: on well-formed carriers the derived operations always return -/

/-- `copy`, `+a`, `-a`, `conj`, `real`, `imag`, `.T` never raise -/
theorem unop_succeeds (op : UnOp) {C : Carrier α} (w : WF C) : ∃ D, unop op C = .ok D := by
  obtain ⟨l1, l2, s1, s2⟩ := w.lens
  have lm : ∀ (f : Cx α → Cx α) (L : Nat) (xs : List (DVec α)), (∀ x ∈ xs, x.len = L) →
      ∀ x ∈ xs.map (DVec.map f), x.len = L := fun f L xs h x hx => by
    simp only [List.mem_map] at hx
    obtain ⟨y, hy, rfl⟩ := hx
    rw [len_map]; exact h y hy
  have lg : ∀ (g : DVec α → DVec α), (∀ y, (g y).len = y.len) → ∀ (L : Nat) (xs : List (DVec α)),
      (∀ x ∈ xs, x.len = L) → ∀ x ∈ xs.map g, x.len = L := fun g hg L xs h x hx => by
    simp only [List.mem_map] at hx
    obtain ⟨y, hy, rfl⟩ := hx
    rw [hg]; exact h y hy
  have hre : ∀ y : DVec α, y.re.len = y.len := fun y => by simp [DVec.re, DVec.len]
  have him : ∀ y : DVec α, y.im.len = y.len := fun y => by simp [DVec.im, DVec.len]
  have hni : ∀ y : DVec α, y.negIm.len = y.len := fun y => by simp [DVec.negIm, DVec.len]
  cases op with
  | copy => exact ofVecs_succeeds w.len l1 l2 s1 s2
  | pos => exact ofVecs_succeeds w.len l1 l2 s1 s2
  | neg => exact ofVecs_succeeds (by simp [w.len]) (lm _ _ _ l1) l2 s1 s2
  | conj => exact ofVecs_succeeds (by simp [w.len]) (lm _ _ _ l1) (lm _ _ _ l2) s1 s2
  | real =>
    refine ofVecs_succeeds (by simp [w.len]) (fun x hx => ?_) (fun x hx => ?_) s1 s2
    · rcases List.mem_append.mp hx with h | h
      · exact lg _ hre _ _ l1 x h
      · exact lg _ hni _ _ l1 x h
    · rcases List.mem_append.mp hx with h | h
      · exact lg _ hre _ _ l2 x h
      · exact lg _ him _ _ l2 x h
  | imag =>
    refine ofVecs_succeeds (by simp [w.len]) (fun x hx => ?_) (fun x hx => ?_) s1 s2
    · rcases List.mem_append.mp hx with h | h
      · exact lg _ hre _ _ l1 x h
      · exact lg _ him _ _ l1 x h
    · rcases List.mem_append.mp hx with h | h
      · exact lg _ him _ _ l2 x h
      · exact lg _ hre _ _ l2 x h
  | transpose => exact ofVecs_succeeds w.len.symm l2 l1 s2 s1

/-- scalar products never raise -/
theorem mul_rmul_succeed {C : Carrier α} (w : WF C) (z : Cx α) (zc : Bool) :
    (∃ D, mul C z zc = .ok D) ∧ (∃ D, rmul z zc C = .ok D) := by
  obtain ⟨l1, l2, s1, s2⟩ := w.lens
  constructor
  · refine ofVecs_succeeds (by simp [w.len]) l1 (fun x hx => ?_) s1 s2
    simp only [List.mem_map] at hx
    obtain ⟨y, hy, rfl⟩ := hx
    simpa [DVec.len] using l2 y hy
  · refine ofVecs_succeeds (by simp [w.len]) (fun x hx => ?_) l2 s1 s2
    simp only [List.mem_map] at hx
    obtain ⟨y, hy, rfl⟩ := hx
    simpa [DVec.len] using l1 y hy

/-- `a += b`, `a -= b` (also `a += a`) never raise for well-formed carriers of the same shape -/
theorem iadd_isub_succeed {C O : Carrier α} (wo : WF O) (hu : C.ulen = O.ulen) (hv : C.vlen = O.vlen) :
    (iadd C O).2 = none ∧ (isub C O).2 = none := by
  obtain ⟨l1, l2, s1, s2⟩ := wo.lens
  have key : ∀ fac : Option (Cx α),
      (addDyad C (O.u.map DVec.toArr) (some (O.v.map DVec.toArr)) fac).2 = none := fun fac => by
    unfold addDyad
    simp only [Option.getD_some, List.length_map, wo.len, ne_eq, not_true_eq_false, if_false]
    exact addLoop_succeeds (L1 := O.ulen.toNat) (L2 := O.vlen.toNat) (fun p hp => by
      obtain ⟨a, b⟩ := List.of_mem_zip hp
      simp only [List.mem_map] at a b
      obtain ⟨x, hx, ex⟩ := a
      obtain ⟨y, hy, ey⟩ := b
      rw [← ex, ← ey, sumLead_toArr, sumLead_toArr]
      exact ⟨l1 x hx, l2 y hy⟩) (by rw [hu]; exact s1) (by rw [hv]; exact s2)
  exact ⟨key none, key (some negOne)⟩

/-! ## non-vacuity: concrete instances of the hypotheses (over ℚ, evaluated by the kernel)

`Ex.A` is a complex 3×2 carrier with a real and a complex dyad, `Ex.B` a real one, `Ex.prog` a 36-instruction program
using every instruction kind (`Lemmas/DyadExamples.lean`). -/

example : WF Ex.A := ⟨rfl, by decide, by decide⟩
example : WF Ex.B := ⟨rfl, by decide, by decide⟩
example : Tight Ex.A := by unfold Tight; decide +kernel
-- every unary operation succeeds on `Ex.A` (hypothesis `op C = .ok D` of the `*_refines` theorems)
example : ∀ op : UnOp, (unop op Ex.A).isOk = true := by
  intro op; cases op <;> decide +kernel
-- `a += a`, `a -= b`, `a + b`, `a - b`, `a + 0`, `0 - a`
example : (iadd Ex.A Ex.A).2 = none ∧ (isub Ex.A Ex.B).2 = none := by decide +kernel
example : (addD Ex.A Ex.B).isOk = true ∧ (subD Ex.A Ex.B).isOk = true ∧ (addS Ex.A 0).isOk = true
    ∧ (rsubS 0 Ex.A).isOk = true := by decide +kernel
-- products
example : (mul Ex.A (Ex.z 0 1) true).isOk = true ∧ (rmul (Ex.r 2) false Ex.A).isOk = true
    ∧ (matmulM Ex.A Ex.M22).isOk = true ∧ (rmatmulM ⟨[2, 3], Ex.M32.data, false⟩ Ex.A).isOk = true
    ∧ (matmulD ⟨Ex.B.v, Ex.B.u, 2, 3, false⟩ Ex.A).isOk = true ∧ (matmulD Ex.B Ex.B).isOk = false := by decide +kernel
example : Ex.M22.shape = [2, 2] ∧ (dotV Ex.A ⟨[Ex.r 1, Ex.z 0 1], true⟩).isOk = true
    ∧ (rdotV ⟨[Ex.r 1, Ex.r 0, Ex.r 2], false⟩ Ex.A).isOk = true := by decide +kernel
-- slicing: the hypotheses of `getitem_carrier_refines` for `A[1:, ::-1]`
example : applyIdx 3 (.sl (some 1) none none) = .ok ([[1, 2].length], [1, 2])
    ∧ applyIdx 2 (.sl none none (some (-1))) = .ok ([[1, 0].length], [1, 0]) := ⟨rfl, rfl⟩
example : (match getitem Ex.A (.sl (some 1) none none) (.sl none none (some (-1))) with
    | .ok (.car _) => true | _ => false) = true := by decide +kernel
example : (match getitem Ex.A (.int (-1)) (.sl none none none) with
    | .ok (.arr a) => a.shape == [2] | _ => false) = true := by decide +kernel
example : (setitem Ex.A (.sl none (some 2) none) (.sl none none none) true).isOk = true := by decide +kernel
-- contraction: non-batch with a 3×2 matrix; batch mode with a (2,3,2) matrix
example : batchShape (some Ex.M32) none none = .ok none ∧ normAll 3 (selIdx none 0) = .ok none
    ∧ (contract Ex.A (some Ex.M32) none none).isOk = true := ⟨rfl, rfl, by decide +kernel⟩
example : batchShape (some (⟨[2, 3, 2], Ex.M32.data ++ Ex.M32.data, false⟩ : NArr ℚ)) none none = .ok (some [2])
    ∧ (contract Ex.A (some ⟨[2, 3, 2], Ex.M32.data ++ Ex.M32.data, false⟩) none none).isOk = true :=
  ⟨rfl, by decide +kernel⟩
-- whole programs: `Ex.prog` is admissible, raises nowhere, and therefore refines the dense program
example : AdmRun ([] : Env ℚ) Ex.prog := by decide +kernel
example : ∀ o ∈ (run ([] : Env ℚ) Ex.prog).2, o.isOk = true := by decide +kernel
example : (run ([] : Env ℚ) Ex.prog).1.map absM = drun [] Ex.prog :=
  dyad_program_refines_dense_closed Ex.prog (by decide +kernel) (by decide +kernel)
example : (run ([] : Env ℚ) Ex.prog).1.length = 21 := by decide +kernel

-- `A[:, :] = 0` (repaired by 9b72248: before, the carrier was returned unchanged) now drops every dyad
example : setitem Ex.B (.sl none none none) (.sl none none none) true = .ok { Ex.B with u := [], v := [] }
    ∧ dense Ex.B 0 0 ≠ 0 ∧ dense ({ Ex.B with u := [], v := [] } : Carrier ℚ) 0 0 = 0 := by decide +kernel

/-- the `Tight` hypothesis of the dtype claims cannot be dropped: for the loose carrier `Z` (complex dtype, no stored
    dyad — e.g. a complex carrier times 0) the model, like the code, returns a REAL copy although `Z.todense()` is
    complex (open finding `dtype_lost_on_copy`) -/
theorem dtype_lost_on_copy_witness :
    ∃ Z D : Carrier ℚ, WF Z ∧ (todense Z).c = true ∧ copy Z = .ok D ∧ D.c = false :=
  ⟨⟨[], [], 3, 2, true⟩, ⟨[], [], 3, 2, false⟩, ⟨rfl, by simp, by simp⟩, rfl, rfl, rfl⟩

/-! ### open known finding `dyad-dtype-lost-without-stored-complex-vector`: the full-strength complex-flag claims
(without `Tight` / without a stored dyad) are FALSE of the code as written — negations proved at the witnesses -/

-- `copy` (and every derived operation going through the constructor): a complex carrier without stored complex vector
example : ¬ (∀ C D : Carrier ℚ, WF C → copy C = .ok D → D.c = C.c) := by
  intro hall
  have := hall ⟨[], [], 3, 2, true⟩ ⟨[], [], 3, 2, false⟩ ⟨rfl, by simp, by simp⟩ rfl
  exact absurd this (by decide)

-- `E * 1j` for an empty real carrier `E`: the scalar's complex type is lost
example : ¬ (∀ (C D : Carrier ℚ) (z : Cx ℚ) (zc : Bool), WF C → mul C z zc = .ok D → D.c = (C.c || zc)) := by
  intro hall
  have := hall ⟨[], [], 2, 2, false⟩ ⟨[], [], 2, 2, false⟩ (Ex.z 0 1) true ⟨rfl, by simp, by simp⟩ rfl
  exact absurd this (by decide)

-- `A[:, :] = 0` on a complex carrier keeps the complex dtype (as dense does) but leaves it loose: a following
-- `copy` is real although the dense matrix is complex
example : (match setitem Ex.A (.sl none none none) (.sl none none none) true with
    | .ok Z => Z.c && (match copy Z with | .ok D => !D.c | .error _ => false)
    | .error _ => false) = true := by decide +kernel

end PymotoVerif.C15
