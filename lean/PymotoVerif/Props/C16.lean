/-
C16 — Aggregations bound the true extreme; active sets select the requested band.
Property theorems ONLY (helper lemmas live in `Lemmas/Aggregation*.lean`).

Model: `Core/Aggregation.lean` (transcription of `pymoto/modules/aggregation.py`, with the repaired
`n_upper_amt > 0` guard).  `np.argsort` enters as the parameter `isort`, Python's `int()` as `trunc`
with the contract "floor on non-negative arguments" (`truncRat_eq_floor` shows that the truncation the
driver runs on rationals satisfies it), `exp log pow` as `Real.exp Real.log Real.rpow`.
-/
import PymotoVerif.Lemmas.Aggregation
import PymotoVerif.Lemmas.AggregationBounds
import PymotoVerif.Lemmas.AggregationDeriv
import Mathlib.Tactic.NormNum
import Mathlib.Tactic.FieldSimp

namespace PymotoVerif.C16
open PymotoVerif PymotoVerif.Agg Finset

/-! ## AggActiveSet -/
section ActiveSet
variable {α : Type} [Field α] [LinearOrder α] [IsStrictOrderedRing α] [FloorRing α] [BEq α] [LawfulBEq α]

omit [IsStrictOrderedRing α] [FloorRing α] in
/-- all values equal (in particular `n = 1`): `Ellipsis`, every entry is kept -/
theorem activeSet_all_equal (c : ActiveSet α) (trunc : α → Int) (n : Nat) (x : Nat → α)
    (isort : Nat → Nat) (hn : 0 < n) (heq : npMin n x = npMax n x) :
    c.call trunc n x isort = .ok none := by
  unfold ActiveSet.call
  rw [if_neg (by omega)]
  have : ((npMax n x - npMin n x) == 0) = true := by rw [beq_iff_eq, heq, sub_self]
  rw [if_pos this]

/-- **the mask is exactly the value band minus the `⌊n·lower_amt⌋` first and the `⌊n·(1-upper_amt)⌋` last
    positions of the argsort order** (for every `isort`, every configuration, every length). -/
theorem activeSet_spec (c : ActiveSet α) (trunc : α → Int) (htr : ∀ a : α, 0 ≤ a → trunc a = ⌊a⌋)
    (n : Nat) (x : Nat → α) (isort : Nat → Nat) (hn : 0 < n) (hne : npMin n x ≠ npMax n x) :
    ∃ mask, c.call trunc n x isort = .ok (some mask) ∧
      ∀ i, i < n → (mask i = true ↔
        (c.lower_rel ≤ xrel n x i ∧ xrel n x i ≤ c.upper_rel) ∧
        (∀ k, k < min ⌊(n : α) * c.lower_amt⌋₊ n → isort k ≠ i) ∧
        (∀ k, n - ⌊(n : α) * (1 - c.upper_amt)⌋₊ ≤ k → k < n → isort k ≠ i)) := by
  have hlt : npMin n x < npMax n x := lt_of_le_of_ne (npMin_le_npMax hn x) hne
  have hbeq : ¬ ((npMax n x - npMin n x) == 0) = true := by
    rw [beq_iff_eq, sub_eq_zero]; exact fun h => hne h.symm
  refine ⟨_, by unfold ActiveSet.call; rw [if_neg (by omega), if_neg hbeq], ?_⟩
  intro i hi
  rw [selHighest_iff c trunc htr, selLowest_iff c trunc htr, selValue_iff c x hlt hi]
  tauto

/-- the same with the argsort contract "permutation" made explicit through its inverse `rank`:
    entry `i` is kept iff it lies in the band and its rank lies in `[⌊n·lower_amt⌋, n - ⌊n·(1-upper_amt)⌋)` -/
theorem activeSet_spec_rank (c : ActiveSet α) (trunc : α → Int) (htr : ∀ a : α, 0 ≤ a → trunc a = ⌊a⌋)
    (n : Nat) (x : Nat → α) (isort rank : Nat → Nat) (hn : 0 < n) (hne : npMin n x ≠ npMax n x)
    (hr1 : ∀ k, k < n → rank (isort k) = k) (hr2 : ∀ i, i < n → isort (rank i) = i ∧ rank i < n) :
    ∃ mask, c.call trunc n x isort = .ok (some mask) ∧
      ∀ i, i < n → (mask i = true ↔
        (c.lower_rel ≤ xrel n x i ∧ xrel n x i ≤ c.upper_rel) ∧
        ⌊(n : α) * c.lower_amt⌋₊ ≤ rank i ∧ rank i < n - ⌊(n : α) * (1 - c.upper_amt)⌋₊) := by
  obtain ⟨mask, hc, hm⟩ := activeSet_spec c trunc htr n x isort hn hne
  refine ⟨mask, hc, fun i hi => ?_⟩
  rw [hm i hi]
  obtain ⟨hri, hrn⟩ := hr2 i hi
  constructor
  · rintro ⟨hb, hl, hu⟩
    refine ⟨hb, ?_, ?_⟩
    · by_contra hlt
      exact hl (rank i) (by rw [lt_min_iff]; omega) hri
    · by_contra hge
      exact hu (rank i) (by omega) hrn hri
  · rintro ⟨hb, hl, hu⟩
    refine ⟨hb, ?_, ?_⟩
    · intro k hk he
      have hk' := lt_min_iff.mp hk
      have : rank i = k := by rw [← he, hr1 k hk'.2]
      omega
    · intro k hk1 hk2 he
      have : rank i = k := by rw [← he, hr1 k hk2]
      omega

/-- **a fraction that rounds to zero entries removes nothing**: the mask is the value band -/
theorem activeSet_zero_count_removes_nothing (c : ActiveSet α) (trunc : α → Int)
    (htr : ∀ a : α, 0 ≤ a → trunc a = ⌊a⌋) (n : Nat) (x : Nat → α) (isort : Nat → Nat) (hn : 0 < n)
    (hne : npMin n x ≠ npMax n x)
    (hl : ⌊(n : α) * c.lower_amt⌋₊ = 0) (hu : ⌊(n : α) * (1 - c.upper_amt)⌋₊ = 0) :
    ∃ mask, c.call trunc n x isort = .ok (some mask) ∧
      ∀ i, i < n → (mask i = true ↔ (c.lower_rel ≤ xrel n x i ∧ xrel n x i ≤ c.upper_rel)) := by
  obtain ⟨mask, hc, hm⟩ := activeSet_spec c trunc htr n x isort hn hne
  refine ⟨mask, hc, fun i hi => ?_⟩
  rw [hm i hi, hl, hu]
  constructor
  · exact fun h => h.1
  · intro h
    refine ⟨h, fun k hk => by simp at hk, fun k h1 h2 => by omega⟩

/-- with the default band and amounts that round to zero every entry is kept (the repaired defect:
    `AggActiveSet(upper_amt=0.95)` on 5 values) -/
theorem activeSet_zero_count_keeps_all (c : ActiveSet α) (trunc : α → Int)
    (htr : ∀ a : α, 0 ≤ a → trunc a = ⌊a⌋) (n : Nat) (x : Nat → α) (isort : Nat → Nat) (hn : 0 < n)
    (hne : npMin n x ≠ npMax n x) (hlr : c.lower_rel ≤ 0) (hur : 1 ≤ c.upper_rel)
    (hl : ⌊(n : α) * c.lower_amt⌋₊ = 0) (hu : ⌊(n : α) * (1 - c.upper_amt)⌋₊ = 0) :
    ∃ mask, c.call trunc n x isort = .ok (some mask) ∧ ∀ i, i < n → mask i = true := by
  obtain ⟨mask, hc, hm⟩ := activeSet_zero_count_removes_nothing c trunc htr n x isort hn hne hl hu
  refine ⟨mask, hc, fun i hi => ?_⟩
  rw [hm i hi]
  have hlt : npMin n x < npMax n x := lt_of_le_of_ne (npMin_le_npMax hn x) hne
  obtain ⟨h0, h1⟩ := xrel_bounds x hlt hi
  exact ⟨le_trans hlr h0, le_trans h1 hur⟩

omit [Field α] [IsStrictOrderedRing α] [FloorRing α] [BEq α] [LawfulBEq α] in
/-- "lowest" / "highest": under the argsort contract "ascending", every entry removed by the lower count is
    ≤ every entry at a later sort position, and every entry removed by the upper count is ≥ every entry at an
    earlier sort position -/
theorem activeSet_removed_are_extreme (n : Nat) (x : Nat → α) (isort : Nat → Nat)
    (hsorted : ∀ k k', k ≤ k' → k' < n → x (isort k) ≤ x (isort k')) (nl nu : Nat) :
    (∀ k k', k < min nl n → min nl n ≤ k' → k' < n → x (isort k) ≤ x (isort k')) ∧
    (∀ k k', n - nu ≤ k → k < n → k' < n - nu → x (isort k') ≤ x (isort k)) :=
  ⟨fun k k' h1 h2 h3 => hsorted k k' (by omega) h3, fun k k' h1 h2 h3 => hsorted k' k (by omega) h2⟩

end ActiveSet

/-- non-vacuity of the `trunc` contract: the truncation run by the driver on rationals satisfies it -/
example : ∀ a : ℚ, 0 ≤ a → truncRat a = ⌊a⌋ := fun _ h => truncRat_eq_floor h

/-- non-vacuity (and the repaired defect's witness): `upper_amt = 19/20` on `[3,1,2,5,4]` keeps all five -/
example : ∃ mask, (⟨0, 1, 0, 19/20⟩ : ActiveSet ℚ).call truncRat 5 (ofList [3, 1, 2, 5, 4])
    (fun k => [1, 2, 0, 4, 3].getD k 0) = .ok (some mask) ∧ ∀ i, i < 5 → mask i = true := by
  apply activeSet_zero_count_keeps_all _ _ (fun _ h => truncRat_eq_floor h) _ _ _ (by norm_num)
  · decide +kernel
  · norm_num
  · norm_num
  · rw [Nat.floor_eq_zero]; norm_num
  · rw [Nat.floor_eq_zero]; norm_num

/-- non-vacuity with non-zero counts: band `[1/4, 1]`, 2 lowest and 1 highest of 5 removed -/
example : (match (⟨1/4, 1, 2/5, 4/5⟩ : ActiveSet ℚ).call truncRat 5 (ofList [3, 1, 2, 5, 4])
      (fun k => [1, 2, 0, 4, 3].getD k 0) with
    | .ok (some mask) => (List.range 5).map mask
    | _ => []) = [true, false, false, false, true] := by decide +kernel

/-! ## AggScaling -/
section Scaling
variable {α : Type} [Field α] [LinearOrder α]

/-- first call: `s₀ = true / approx` -/
theorem aggScaling_first (s : Scaling α) (m : Nat) (y : Nat → α) (a : α) (hm : 0 < m) :
    s.call none m y a = .ok (s.trueval m y / a) := Scaling.call_none s m y a hm

/-- later calls: `s_k = d·s_{k-1} + (1-d)·true/approx` -/
theorem aggScaling_step (s : Scaling α) (old : α) (m : Nat) (y : Nat → α) (a : α) (hm : 0 < m) :
    s.call (some old) m y a = .ok (s.damping * old + (1 - s.damping) * (s.trueval m y / a)) :=
  Scaling.call_some s old m y a hm

/-- **undamped scaling is exact**: whatever the history, `sf · approx = true extreme` -/
theorem aggScaling_undamped_exact (s : Scaling α) (hd : s.damping = 0) (sf : Option α) (m : Nat)
    (y : Nat → α) (a : α) (hm : 0 < m) (ha : a ≠ 0) :
    ∃ v, s.call sf m y a = .ok v ∧ v * a = s.trueval m y := by
  cases sf with
  | none => exact ⟨_, aggScaling_first s m y a hm, by field_simp⟩
  | some old =>
    refine ⟨_, aggScaling_step s old m y a hm, ?_⟩
    rw [hd]; field_simp; ring

/-- **damping recurrence over a whole history of calls** `(x_k, approx_k)` on one object -/
theorem aggScaling_recurrence (s : Scaling α) (hist : List (Nat × (Nat → α) × α))
    (hpos : ∀ c ∈ hist, 0 < c.1) :
    ∃ l, s.calls none hist = .ok l ∧ l.length = hist.length ∧
      (∀ c rest, hist = c :: rest → l.getD 0 0 = s.trueval c.1 c.2.1 / c.2.2) ∧
      (∀ k, k + 1 < hist.length →
        l.getD (k + 1) 0 = s.damping * l.getD k 0 +
          (1 - s.damping) * (hist.map (fun c => s.trueval c.1 c.2.1 / c.2.2)).getD (k + 1) 0) := by
  refine ⟨_, scaling_calls_eq s none hist hpos, ?_, ?_, ?_⟩
  · rw [scaleSeq_length, List.length_map]
  · intro c rest h
    subst h
    simp [scaleSeq]
  · intro k hk
    exact scaleSeq_step _ _ _ _ (by simpa using hk)

end Scaling

/-- non-vacuity: `AggScaling('max', damping=1/2)` on `[1,2,3]`/4 then `[1,2,5]`/4 gives `3/4, 1` -/
example : (⟨true, 1/2⟩ : Scaling ℚ).calls none
    [(3, ofList [1, 2, 3], 4), (3, ofList [1, 2, 5], 4)] = .ok [3/4, 1] := by decide +kernel

/-! ## `Aggregation._response`: active entries, scale factor -/
section Response
variable {α : Type} [Field α] [LinearOrder α] [BEq α]

/-- anatomy of one `response()` call: the stored mask is what `AggActiveSet` returned (or `Ellipsis`), the output is
    `sf · aggregation(x[select])`, and `sf` is the frozen `1.0`/previous value (no scaling) or what `AggScaling`
    returned on the ACTIVE entries -/
theorem response_spec (f : Fns α) (trunc : α → Int) (c : Config α) (st : State α) (n : Nat)
    (x : Nat → α) (isort : Nat → Nat) (v : α) (st' : State α)
    (h : response f trunc c st n x isort = .ok (v, st')) :
    (match c.activeSet with
      | some a => a.call trunc n x isort = .ok st'.select
      | none => st'.select = none) ∧
    ∃ xagg, aggFn f c.kind (selIdx n st'.select).length (selVec (selIdx n st'.select) x) = .ok xagg ∧
      v = st'.sf * xagg ∧
      (match c.scaling with
        | none => st'.sf = st.sf ∧ st'.scalingSf = st.scalingSf
        | some s => s.call st.scalingSf (selIdx n st'.select).length
            (selVec (selIdx n st'.select) x) xagg = .ok st'.sf ∧ st'.scalingSf = some st'.sf) ∧
      st'.ylast = (match c.kind with
        | .softminmax _ => some xagg
        | _ => st.ylast) := by
  unfold response at h
  cases ha : c.activeSet with
  | none =>
    rw [ha] at h
    obtain ⟨hs, hrest⟩ := responseSel_spec f c st n x none v st' h
    rw [hs]; exact ⟨rfl, hrest⟩
  | some a =>
    rw [ha] at h
    simp only at h
    cases hc : a.call trunc n x isort with
    | error e => rw [hc] at h; cases h
    | ok select =>
      rw [hc] at h
      obtain ⟨hs, hrest⟩ := responseSel_spec f c st n x select v st' h
      rw [hs]; exact ⟨hc, hrest⟩

omit [Field α] [BEq α] in
/-- the selected entries are exactly the entries `i < n` with `mask i`, and the "true extreme" used by the scaling
    is the extreme over exactly these entries -/
theorem active_entries_spec (n : Nat) (mask : Nat → Bool) (x : Nat → α)
    (hm : 0 < (selIdx n (some mask)).length) :
    (∀ i, i ∈ selIdx n (some mask) ↔ (i < n ∧ mask i = true)) ∧
    (∀ i, i < n → mask i = true →
      x i ≤ npMax (selIdx n (some mask)).length (selVec (selIdx n (some mask)) x) ∧
      npMin (selIdx n (some mask)).length (selVec (selIdx n (some mask)) x) ≤ x i) ∧
    (∃ i, i < n ∧ mask i = true ∧
      npMax (selIdx n (some mask)).length (selVec (selIdx n (some mask)) x) = x i) ∧
    (∃ i, i < n ∧ mask i = true ∧
      npMin (selIdx n (some mask)).length (selVec (selIdx n (some mask)) x) = x i) := by
  refine ⟨mem_selIdx_some n mask, ?_, ?_, ?_⟩
  · intro i hi hmi
    obtain ⟨k, hk, he⟩ := mem_selVec (selIdx n (some mask)) x ((mem_selIdx_some n mask i).mpr ⟨hi, hmi⟩)
    rw [← he]
    exact ⟨le_npMax _ hk, npMin_le _ hk⟩
  · obtain ⟨k, hk, he⟩ := npMax_mem hm (selVec (selIdx n (some mask)) x)
    obtain ⟨i, hi, hxi⟩ := selVec_mem (selIdx n (some mask)) x hk
    obtain ⟨h1, h2⟩ := (mem_selIdx_some n mask i).mp hi
    exact ⟨i, h1, h2, by rw [he, hxi]⟩
  · obtain ⟨k, hk, he⟩ := npMin_mem hm (selVec (selIdx n (some mask)) x)
    obtain ⟨i, hi, hxi⟩ := selVec_mem (selIdx n (some mask)) x hk
    obtain ⟨h1, h2⟩ := (mem_selIdx_some n mask i).mp hi
    exact ⟨i, h1, h2, by rw [he, hxi]⟩

/-- **with undamped `AggScaling` the module output equals the true extreme of the active entries exactly**,
    at every call of every history (`st` arbitrary) -/
theorem response_undamped_exact (f : Fns α) (trunc : α → Int) (c : Config α) (s : Scaling α)
    (hs : c.scaling = some s) (hd : s.damping = 0) (st : State α) (n : Nat) (x : Nat → α)
    (isort : Nat → Nat) (v : α) (st' : State α)
    (h : response f trunc c st n x isort = .ok (v, st'))
    (hne : ∀ xagg, aggFn f c.kind (selIdx n st'.select).length (selVec (selIdx n st'.select) x)
      = .ok xagg → xagg ≠ 0) :
    v = s.trueval (selIdx n st'.select).length (selVec (selIdx n st'.select) x) := by
  obtain ⟨_, xagg, hagg, hv, hsc, _⟩ := response_spec f trunc c st n x isort v st' h
  rw [hs] at hsc
  obtain ⟨hcall, _⟩ := hsc
  have hm : 0 < (selIdx n st'.select).length := by
    by_contra h0
    have h0' : (selIdx n st'.select).length = 0 := by omega
    unfold Scaling.call at hcall
    rw [if_pos h0'] at hcall
    cases hcall
  obtain ⟨w, hw, hexact⟩ := aggScaling_undamped_exact s hd st.scalingSf _
    (selVec (selIdx n st'.select) x) xagg hm (hne xagg hagg)
  rw [hw] at hcall
  cases hcall
  rw [hv, hexact]

/-- **with damping `d` the module's scale factor follows `s_k = d·s_{k-1} + (1-d)·true/approx`**
    (`s_0 = true/approx`), where `approx` is the un-scaled aggregation of the active entries and the output is
    `s_k · approx` -/
theorem response_scale_recurrence (f : Fns α) (trunc : α → Int) (c : Config α) (s : Scaling α)
    (hs : c.scaling = some s) (st : State α) (n : Nat) (x : Nat → α)
    (isort : Nat → Nat) (v : α) (st' : State α)
    (h : response f trunc c st n x isort = .ok (v, st')) :
    ∃ approx, aggFn f c.kind (selIdx n st'.select).length (selVec (selIdx n st'.select) x) = .ok approx ∧
      v = st'.sf * approx ∧ st'.scalingSf = some st'.sf ∧
      st'.sf = (match st.scalingSf with
        | none => s.trueval (selIdx n st'.select).length (selVec (selIdx n st'.select) x) / approx
        | some old => s.damping * old + (1 - s.damping) *
            (s.trueval (selIdx n st'.select).length (selVec (selIdx n st'.select) x) / approx)) := by
  obtain ⟨_, xagg, hagg, hv, hsc, _⟩ := response_spec f trunc c st n x isort v st' h
  rw [hs] at hsc
  obtain ⟨hcall, hst⟩ := hsc
  have hm : 0 < (selIdx n st'.select).length := by
    by_contra h0
    have h0' : (selIdx n st'.select).length = 0 := by omega
    unfold Scaling.call at hcall
    rw [if_pos h0'] at hcall
    cases hcall
  refine ⟨xagg, hagg, hv, hst, ?_⟩
  cases hsf : st.scalingSf with
  | none =>
    rw [hsf, aggScaling_first s _ _ _ hm] at hcall
    exact (Except.ok.inj hcall).symm
  | some old =>
    rw [hsf, aggScaling_step s old _ _ _ hm] at hcall
    exact (Except.ok.inj hcall).symm

/-- a history of `response()` calls is the chain of single calls, each started in the state the previous one left:
    the per-call theorems above (stated for an ARBITRARY prior state) therefore hold at every call of every history -/
theorem responses_chain (f : Fns α) (trunc : α → Int) (c : Config α) :
    ∀ (hist : List (Nat × (Nat → α) × (Nat → Nat))) (st : State α) (vs : List α) (stf : State α),
      responses f trunc c st hist = .ok (vs, stf) →
      (hist = [] ∧ vs = [] ∧ stf = st) ∨
      ∃ n x isort rest v st1 vs', hist = (n, x, isort) :: rest ∧ vs = v :: vs' ∧
        response f trunc c st n x isort = .ok (v, st1) ∧ responses f trunc c st1 rest = .ok (vs', stf)
  | [], st, vs, stf, h => by
    simp only [responses, pure, Except.pure, Except.ok.injEq, Prod.mk.injEq] at h
    exact Or.inl ⟨rfl, h.1.symm, h.2.symm⟩
  | (n, x, isort) :: rest, st, vs, stf, h => by
    right
    simp only [responses, bind, Except.bind] at h
    cases hr : response f trunc c st n x isort with
    | error e => rw [hr] at h; cases h
    | ok p =>
      obtain ⟨v, st1⟩ := p
      rw [hr] at h
      simp only at h
      cases hrs : responses f trunc c st1 rest with
      | error e => rw [hrs] at h; cases h
      | ok q =>
        obtain ⟨vs', st2⟩ := q
        rw [hrs] at h
        simp only [pure, Except.pure, Except.ok.injEq, Prod.mk.injEq] at h
        exact ⟨n, x, isort, rest, v, st1, vs', rfl, h.1.symm, hr, by rw [← h.2]; exact hrs⟩
end Response

/-- non-vacuity of the response theorems (executed at ℚ with the stand-ins `exp = 1`, i.e. `alpha = 0`: the soft
    maximum is then the mean): mean of `[1,2,3]` is 2, undamped max-scaling gives `sf = 3/2` and output 3 = max -/
example : (match response (⟨fun _ => 1, fun _ => 0, fun a _ => a⟩ : Fns ℚ) truncRat
      ⟨.softminmax 0, some ⟨0, 1, 0, 1⟩, some ⟨true, 0⟩⟩ State.init 3 (ofList [1, 2, 3]) id with
    | .ok (v, st) => some (v, st.sf)
    | _ => none) = some (3, 3/2) := by decide +kernel

/-! ## approximation bounds over ℝ (`y` = the positive active entries, `m ≥ 1` of them) -/

/-- **P-norm**: `max ≤ P_p ≤ m^{1/p}·max` for `p > 0`;  `m^{1/p}·min ≤ P_p ≤ min` for `p < 0` -/
theorem pnorm_bounds (m : Nat) (hm : 0 < m) (p : ℝ) (y : Nat → ℝ) (hy : ∀ i, i < m → 0 < y i) :
    (0 < p → npMax m y ≤ pnormVal Real.rpow p m y ∧
      pnormVal Real.rpow p m y ≤ (m : ℝ) ^ (1 / p) * npMax m y) ∧
    (p < 0 → (m : ℝ) ^ (1 / p) * npMin m y ≤ pnormVal Real.rpow p m y ∧
      pnormVal Real.rpow p m y ≤ npMin m y) :=
  ⟨fun hp => pnorm_bounds_pos m hm p hp y hy, fun hp => pnorm_bounds_neg m hm p hp y hy⟩

/-- **KS**: `max ≤ KS_ρ ≤ max + ln m/ρ` for `ρ > 0`;  `min + ln m/ρ ≤ KS_ρ ≤ min` for `ρ < 0` (any real data) -/
theorem ks_bounds (m : Nat) (hm : 0 < m) (rho : ℝ) (y : Nat → ℝ) :
    (0 < rho → npMax m y ≤ ksVal Real.exp Real.log rho m y ∧
      ksVal Real.exp Real.log rho m y ≤ npMax m y + Real.log m / rho) ∧
    (rho < 0 → npMin m y + Real.log m / rho ≤ ksVal Real.exp Real.log rho m y ∧
      ksVal Real.exp Real.log rho m y ≤ npMin m y) :=
  ⟨fun hr => ks_bounds_pos m hm rho hr y, fun hr => ks_bounds_neg m hm rho hr y⟩

/-- **soft max/min**: `min ≤ S_α ≤ max` for every `α` (any real data, with scipy's shifted softmax as coded),
    and the sharp entropy bounds `S_α ≥ max − ln m/α` for `α > 0`, `S_α ≤ min − ln m/α` for `α < 0` -/
theorem softmax_bounds (m : Nat) (hm : 0 < m) (alpha : ℝ) (y : Nat → ℝ) :
    (npMin m y ≤ softVal Real.exp alpha m y ∧ softVal Real.exp alpha m y ≤ npMax m y) ∧
    (0 < alpha → npMax m y - Real.log m / alpha ≤ softVal Real.exp alpha m y) ∧
    (alpha < 0 → softVal Real.exp alpha m y ≤ npMin m y - Real.log m / alpha) :=
  ⟨soft_bounds_minmax m hm alpha y, fun ha => soft_lower_pos m hm alpha ha y,
    fun ha => soft_upper_neg m hm alpha ha y⟩

/-- the bounds are about what the module computes: for a non-empty selection and a non-zero parameter
    `aggregation_function` returns exactly the value the bounds speak about -/
theorem aggFn_value (m : Nat) (hm : 0 < m) (y : Nat → ℝ) (p : ℝ) (hp : p ≠ 0) :
    aggFn realFns (.pnorm p) m y = .ok (pnormVal Real.rpow p m y) ∧
    aggFn realFns (.ks p) m y = .ok (ksVal Real.exp Real.log p m y) ∧
    aggFn realFns (.softminmax p) m y = .ok (softVal Real.exp p m y) := by
  have hm0 : m ≠ 0 := by omega
  have hb : (p == 0) = false := by rw [beq_eq_false_iff_ne]; exact hp
  refine ⟨?_, ?_, ?_⟩ <;> simp [aggFn, hm0, hb, realFns]

/-- non-vacuity of the hypotheses of the bounds: two positive entries -/
example : ∃ (m : Nat) (y : Nat → ℝ), 0 < m ∧ (∀ i, i < m → 0 < y i) ∧ y 0 ≠ y 1 :=
  ⟨2, fun i => (i : ℝ) + 1, by norm_num, fun i _ => by positivity, by norm_num⟩

/-! ## the code's derivative vectors are the derivatives (fixed active mask, frozen scale factor) -/

/-- KS: `d/dt [dfdy · sf · KS(x[select] + t·v[select])]` at `t = 0` is `Σ_j dx_j v_j` with `dx` what `_sensitivity` returns -/
theorem ks_sensitivity_is_derivative (rho : ℝ) (hr : rho ≠ 0) (aset : Option (ActiveSet ℝ))
    (scal : Option (Scaling ℝ)) (st : State ℝ) (n : Nat) (x v : Nat → ℝ) (dfdy : ℝ)
    (hm : 0 < (selIdx n st.select).length) :
    ∃ dx, sensitivity realFns ⟨.ks rho, aset, scal⟩ st n x dfdy = .ok dx ∧
      HasDerivAt (fun t : ℝ => dfdy * (st.sf * ksVal Real.exp Real.log rho (selIdx n st.select).length
          (selVec (selIdx n st.select) (fun i => x i + t * v i))))
        (∑ j ∈ range n, dx j * v j) 0 := by
  obtain ⟨dx, hdx, hpair⟩ := sensitivity_spec realFns ⟨.ks rho, aset, scal⟩ st n x dfdy
    (ksDer Real.exp rho (selIdx n st.select).length (selVec (selIdx n st.select) x)) rfl
  refine ⟨dx, hdx, ?_⟩
  have hd := ksVal_hasDerivAt _ hm rho hr (selVec (selIdx n st.select) x) (selVec (selIdx n st.select) v)
  have h2 := (hd.const_mul st.sf).const_mul dfdy
  rw [← sumRange_eq, hpair v, sumRange_eq]
  refine h2.congr_deriv ?_
  ring

/-- PNorm on positive active entries -/
theorem pnorm_sensitivity_is_derivative (p : ℝ) (hp : p ≠ 0) (aset : Option (ActiveSet ℝ))
    (scal : Option (Scaling ℝ)) (st : State ℝ) (n : Nat) (x v : Nat → ℝ) (dfdy : ℝ)
    (hm : 0 < (selIdx n st.select).length)
    (hpos : ∀ k, k < (selIdx n st.select).length → 0 < selVec (selIdx n st.select) x k) :
    ∃ dx, sensitivity realFns ⟨.pnorm p, aset, scal⟩ st n x dfdy = .ok dx ∧
      HasDerivAt (fun t : ℝ => dfdy * (st.sf * pnormVal Real.rpow p (selIdx n st.select).length
          (selVec (selIdx n st.select) (fun i => x i + t * v i))))
        (∑ j ∈ range n, dx j * v j) 0 := by
  have hb : (p == 0) = false := by rw [beq_eq_false_iff_ne]; exact hp
  obtain ⟨dx, hdx, hpair⟩ := sensitivity_spec realFns ⟨.pnorm p, aset, scal⟩ st n x dfdy
    (pnormDer Real.rpow p (selIdx n st.select).length (selVec (selIdx n st.select) x))
    (by simp [aggDer, hb, realFns])
  refine ⟨dx, hdx, ?_⟩
  have hd := pnormVal_hasDerivAt _ hm p hp (selVec (selIdx n st.select) x)
    (selVec (selIdx n st.select) v) hpos
  have h2 := (hd.const_mul st.sf).const_mul dfdy
  rw [← sumRange_eq, hpair v, sumRange_eq]
  refine h2.congr_deriv ?_
  ring

/-- SoftMinMax; `self.y` holds the response value of the same selected entries (as after `response()`) -/
theorem softminmax_sensitivity_is_derivative (alpha : ℝ) (aset : Option (ActiveSet ℝ))
    (scal : Option (Scaling ℝ)) (st : State ℝ) (n : Nat) (x v : Nat → ℝ) (dfdy : ℝ)
    (hm : 0 < (selIdx n st.select).length)
    (hy : st.ylast = some (softVal Real.exp alpha (selIdx n st.select).length
      (selVec (selIdx n st.select) x))) :
    ∃ dx, sensitivity realFns ⟨.softminmax alpha, aset, scal⟩ st n x dfdy = .ok dx ∧
      HasDerivAt (fun t : ℝ => dfdy * (st.sf * softVal Real.exp alpha (selIdx n st.select).length
          (selVec (selIdx n st.select) (fun i => x i + t * v i))))
        (∑ j ∈ range n, dx j * v j) 0 := by
  have hm0 : (selIdx n st.select).length ≠ 0 := by omega
  obtain ⟨dx, hdx, hpair⟩ := sensitivity_spec realFns ⟨.softminmax alpha, aset, scal⟩ st n x dfdy
    (softDer Real.exp alpha (softVal Real.exp alpha (selIdx n st.select).length
      (selVec (selIdx n st.select) x)) (selIdx n st.select).length (selVec (selIdx n st.select) x))
    (by simp [aggDer, hm0, hy, realFns])
  refine ⟨dx, hdx, ?_⟩
  have hd := softVal_hasDerivAt _ hm alpha (selVec (selIdx n st.select) x)
    (selVec (selIdx n st.select) v)
  have h2 := (hd.const_mul st.sf).const_mul dfdy
  rw [← sumRange_eq, hpair v, sumRange_eq]
  refine h2.congr_deriv ?_
  ring

/-- non-vacuity of `hm` / `hpos` in the derivative theorems: a fresh module (`Ellipsis` selection) on two positive entries -/
example : 0 < (selIdx 2 (State.init : State ℝ).select).length ∧
    ∀ k, k < (selIdx 2 (State.init : State ℝ).select).length →
      0 < selVec (selIdx 2 (State.init : State ℝ).select) (fun i => (i : ℝ) + 1) k := by
  refine ⟨by simp [State.init, selIdx], fun k _ => ?_⟩
  unfold selVec
  positivity

/-- `response()` of a SoftMinMax module establishes the hypothesis `hy` above -/
theorem softminmax_response_stores_value (trunc : ℝ → Int) (alpha : ℝ) (aset : Option (ActiveSet ℝ))
    (scal : Option (Scaling ℝ)) (st : State ℝ) (n : Nat) (x : Nat → ℝ) (isort : Nat → Nat) (v : ℝ)
    (st' : State ℝ)
    (h : response realFns trunc ⟨.softminmax alpha, aset, scal⟩ st n x isort = .ok (v, st')) :
    0 < (selIdx n st'.select).length ∧
    st'.ylast = some (softVal Real.exp alpha (selIdx n st'.select).length
      (selVec (selIdx n st'.select) x)) := by
  obtain ⟨_, xagg, hagg, _, _, hyl⟩ := response_spec realFns trunc _ st n x isort v st' h
  by_cases hm0 : (selIdx n st'.select).length = 0
  · simp [aggFn, hm0] at hagg
  · simp only [aggFn, hm0, if_false, Except.ok.injEq] at hagg
    refine ⟨by omega, ?_⟩
    rw [hyl, ← hagg]; rfl

end PymotoVerif.C16
