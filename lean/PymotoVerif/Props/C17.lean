/-
C17 — The optimality-criteria update keeps bounds, move limit and volume.
Property theorems ONLY (helper lemmas live in `Lemmas/OC.lean`, `Lemmas/DesignVec.lean`).

Model: `Core/OC.lean` (transcription of `pymoto/routines.py` `minimize_oc`), `Core/DesignVec.lean`
(`_concatenate_to_array`, slice write-back).  `sqrt` is a parameter of the model; the network is the parameter
`prob` (any function from the design to an objective value and a gradient), so the run theorems hold for every
objective, not only for `Σ cᵢ/xᵢ`.  Scalars: any linearly ordered field (ℚ, ℝ, …): exact arithmetic.

Proved: bounds and move limit of every update and — by induction over the iterations — of every design of every run;
the volume is non-increasing in the multiplier; the bracket invariant of the bisection and its exit width; the slices
written back are the right ones.  Volume "equal to the target to bisection tolerance": under the contract of the square
root (`SqrtOK`: `sqrt a ≥ 0`, `sqrt a · sqrt a = a` for `a ≥ 0`; satisfied by `Real.sqrt`) the volume of the update is
Lipschitz in the multiplier with the explicit constant `Σ xᵢ·sqrt(−gᵢ) / (2·l·sqrt l)` on `[l, ∞)` (`oc_volume_lipschitz`),
hence on exit `|Σ xnew − maxvol| ≤ A·l1l2tol/(2·l1·sqrt l1)` (`oc_volume_tolerance`, a-posteriori in the returned lower end)
and `≤ A·l1l2tol/(2·(λ₀−l1l2tol)·sqrt(λ₀−l1l2tol))` whenever the target is reachable (`oc_volume_tolerance_reachable`,
a-priori; `oc_iteration_volume` for every design a run writes back).
Termination of the `while` loop: every pass halves the bracket, so it ends after `k` passes once
`l2 − l1 ≤ l1l2tol·2^k`, and the model's `fuel` (≥ `k+1`) never runs out (`oc_bisection_terminates`, `oc_iteration_terminates`).
Separable objective `Σ cᵢ/xᵢ` (`sqrt` under `SqrtOK`): the un-clipped update is `sqrt(cᵢ/λ)` whatever the current design is
(`oc_separable_update`), and the updated design whose volume meets the target minimises `Σ cᵢ/xᵢ` over every design of the
move-limited box with at most that volume (`oc_separable_optimal`): where the move limits do not bind this is the analytic
optimum, reached in one step, and it is a fixed point of the update (`oc_separable_fixed_point`).
NOT proved (`_partial` in the sense of DESIGN §6): that a run with binding move limits reaches the analytic optimum in finitely
many iterations, and the effect of the bisection tolerance on it (volume met only to `C·l1l2tol`); observed by the harness oracle.
-/
import PymotoVerif.Lemmas.OC
import PymotoVerif.Lemmas.OCVolume
import PymotoVerif.Lemmas.OCVolumeReal
import PymotoVerif.Lemmas.OCTerm
import Mathlib.Data.List.Chain

namespace PymotoVerif.C17
open PymotoVerif PymotoVerif.DV PymotoVerif.OC

section Field
variable {α : Type} [Field α] [LinearOrder α] [IsStrictOrderedRing α]

/-! ## one update -/

/-- **bounds**: whatever `sqrt`, the gradient and the multiplier are, the clipped update of a variable that lies in
    `[xmin, xmax]` (with a non-negative move limit) lies in `[xmin, xmax]` -/
theorem oc_in_bounds (sqrt : α → α) (xmin xmax move xval dfdx : Nat → α) (lam : α) (i : Nat)
    (h1 : xmin i ≤ xval i) (h2 : xval i ≤ xmax i) (hm : 0 ≤ move i) :
    xmin i ≤ update sqrt xmin xmax move xval dfdx lam i ∧ update sqrt xmin xmax move xval dfdx lam i ≤ xmax i := by
  obtain ⟨a, b⟩ := update_mem sqrt xmin xmax move xval dfdx lam i h1 h2 hm
  exact ⟨le_trans (lower_le xmin move xval i h1 hm).1 a, le_trans b (le_upper xmax move xval i h2 hm).1⟩

/-- the hypotheses are satisfiable (ℚ, `sqrt := id`, `x = 1/2 ∈ [0, 1]`, move `1/5`) -/
example : (0:ℚ) ≤ update (fun a : ℚ => a) (fun _ => 0) (fun _ => 1) (fun _ => 1/5) (fun _ => 1/2) (fun _ => -4) 1 0 :=
  (oc_in_bounds (fun a : ℚ => a) (fun _ => 0) (fun _ => 1) (fun _ => 1/5) (fun _ => 1/2) (fun _ => -4) 1 0
    (by norm_num) (by norm_num) (by norm_num)).1

/-- **move limit**: under the same hypotheses the update differs from the current value by at most `move` -/
theorem oc_move_limit (sqrt : α → α) (xmin xmax move xval dfdx : Nat → α) (lam : α) (i : Nat)
    (h1 : xmin i ≤ xval i) (h2 : xval i ≤ xmax i) (hm : 0 ≤ move i) :
    |update sqrt xmin xmax move xval dfdx lam i - xval i| ≤ move i := by
  obtain ⟨a, b⟩ := update_mem sqrt xmin xmax move xval dfdx lam i h1 h2 hm
  have l := (lower_le xmin move xval i h1 hm).2.1
  have u := (le_upper xmax move xval i h2 hm).2.1
  rw [abs_le]; constructor <;> linarith

/-- the move limit is attained and the bound respected in a concrete update (ℚ, `sqrt := id`):
    `x = 1/2`, `-g/λ = 4`, candidate `2`, move `1/5` ⇒ `7/10` -/
example : update (fun a : ℚ => a) (fun _ => 0) (fun _ => 1) (fun _ => 1/5) (fun _ => 1/2) (fun _ => -4) 1 0 = 7/10 := by
  norm_num [update, lower, upper, clip, vmin, vmax]

/-! ## every design of every run (induction over the iterations) -/

/-- **all iterations**: if the initial design lies in `[xmin, xmax]` and `move ≥ 0`, then every design the network is
    evaluated at during `minimize_oc`, and the design left in the variable signals at the end, has the right length
    and lies in `[xmin, xmax]`, and each of them differs from its predecessor by at most `move`
    (for every objective `prob`, every `sqrt`, every tolerance, volume target, bracket and iteration count; bounds scalar,
    per variable or a one-element array: `xmn xmx mvv` are their numpy broadcasts) -/
theorem oc_run_bounds_and_move (sqrt : α → α) (prob : Problem α) (L0 : List (List α))
    (tolx tolf : α) (maxit : Nat) (xmin xmax move : Bnd α) (l1init l2init l1l2tol : α) (maxvol : Option α)
    (fuel : Nat) (xmn xmx mvv : Nat → α)
    (h1 : bcast (concat L0).length xmin = .ok xmn) (h2 : bcast (concat L0).length xmax = .ok xmx)
    (h3 : bcast (concat L0).length move = .ok mvv)
    (hx : ∀ i, i < (concat L0).length → xmn i ≤ ofList (concat L0) i ∧ ofList (concat L0) i ≤ xmx i)
    (hm : ∀ i, i < (concat L0).length → 0 ≤ mvv i) (o : Out α)
    (h : minimizeOC sqrt prob (L0.map some) tolx tolf maxit xmin xmax move l1init l2init l1l2tol maxvol fuel = .ok o) :
    (∀ t ∈ o.trace ++ [concat o.states], t.length = (concat L0).length ∧
        ∀ i, i < (concat L0).length → xmn i ≤ ofList t i ∧ ofList t i ≤ xmx i) ∧
    List.IsChain (fun older newer => ∀ i, i < (concat L0).length → |ofList newer i - ofList older i| ≤ mvv i)
      (o.trace ++ [concat o.states]) := by
  obtain ⟨p, e1, e2, e3, s', hg, et, es⟩ :=
    minimizeOC_good sqrt prob L0 tolx tolf maxit xmin xmax move l1init l2init l1l2tol maxvol fuel xmn xmx mvv
      h1 h2 h3 hx hm o h
  subst e1 e2 e3
  rw [et, es, hg.st]
  constructor
  · intro t ht
    rcases List.mem_append.mp ht with ht | ht
    · have ht' : t ∈ s'.trace := List.mem_reverse.mp ht
      exact ⟨hg.tr_len t ht', hg.tr_inb t ht'⟩
    · have : t = s'.xval.toList := by simpa using ht
      subst this
      refine ⟨by rw [Array.length_toList]; exact hg.size, ?_⟩
      rw [ofList_toList]; exact hg.inb
  · have : s'.trace.reverse ++ [s'.xval.toList] = (s'.xval.toList :: s'.trace).reverse := by simp
    rw [this, List.isChain_reverse]
    exact hg.chain

/-- non-vacuity: a run over ℚ (`sqrt := id`, objective `x₀ + x₁ … ` with gradient `-1`, two signals, scalar bounds
    `[0, 1]`, move `1/5`, three iterations) satisfies the hypotheses and returns normally -/
example : (minimizeOC (fun a : ℚ => a) (fun x => (x 0 + x 1 + x 2, fun _ => -1)) ([[1/2, 1/4], [3/4]].map some)
    0 0 3 (.scalar 0) (.scalar 1) (.scalar (1/5)) 0 4 (1/4) none 50).toOption.isSome = true := by
  decide +kernel

/-! ## volume as a function of the multiplier -/

/-- **the volume of the update is non-increasing in `λ`** (for `λ > 0`, non-negative design, clipped gradient `≤ 0`,
    and a monotone `sqrt` — the only fact about the square root that is used) -/
theorem oc_volume_monotone (sqrt : α → α) (hsq : ∀ a b, a ≤ b → sqrt a ≤ sqrt b)
    (n : Nat) (xmin xmax move xval dfdx : Nat → α)
    (hx : ∀ i, i < n → 0 ≤ xval i) (hg : ∀ i, i < n → dfdx i ≤ 0) (l l' : α) (hl : 0 < l) (hll : l ≤ l') :
    volume n (update sqrt xmin xmax move xval dfdx l') ≤ volume n (update sqrt xmin xmax move xval dfdx l) := by
  apply volume_mono
  intro i hi
  unfold update
  apply clip_mono
  apply mul_le_mul_of_nonneg_left _ (hx i hi)
  apply hsq
  exact div_le_div_of_nonneg_left (by linarith [hg i hi]) hl hll

omit [IsStrictOrderedRing α] in
/-- the clipped gradient satisfies the hypothesis of `oc_volume_monotone` whatever the network returns -/
theorem oc_clipGrad_nonpos (g : Nat → α) (i : Nat) : clipGrad g i ≤ 0 := by
  unfold clipGrad; rw [vmin_eq]; exact min_le_right _ _

example : ∃ (xval dfdx : Nat → ℚ), (∀ i, i < 2 → 0 ≤ xval i) ∧ (∀ i, i < 2 → dfdx i ≤ 0) ∧ (0:ℚ) < 1 ∧ (1:ℚ) ≤ 2 :=
  ⟨fun _ => 1/2, fun _ => -1, fun _ _ => by norm_num, fun _ _ => by norm_num, by norm_num, by norm_num⟩

/-! ## bisection -/

/-- **bracket invariant**: the `while` loop is the iterated body; after every pass (`j ≤ k`) the bracket stays inside the
    initial one and ordered, a moved lower end has volume above the target, a moved upper end has volume at most the
    target — hence `vol(l1) > maxvol ≥ vol(l2)` throughout whenever it held initially —, the loop condition held before
    every pass, and on exit `l2 - l1 ≤ l1l2tol` as coded.  (`upd l` is the update for the multiplier `l`.) -/
theorem oc_bracket_invariant (n : Nat) (upd : α → Nat → α) (maxvol tol : α) (fuel : Nat) (s s' : BState α)
    (hord : s.l1 ≤ s.l2) (h : bisect n upd maxvol tol fuel s = some s') :
    ∃ k, s' = (bisectStep n upd maxvol)^[k] s ∧ s'.l2 - s'.l1 ≤ tol ∧
      (∀ j, j < k → tol < ((bisectStep n upd maxvol)^[j] s).l2 - ((bisectStep n upd maxvol)^[j] s).l1) ∧
      ∀ j, j ≤ k → BInv n upd maxvol s ((bisectStep n upd maxvol)^[j] s) ∧
        (maxvol < volF n upd s.l1 → volF n upd s.l2 ≤ maxvol →
          maxvol < volF n upd ((bisectStep n upd maxvol)^[j] s).l1 ∧
          volF n upd ((bisectStep n upd maxvol)^[j] s).l2 ≤ maxvol) := by
  obtain ⟨k, _, e, hx, hall⟩ := bisect_iterate n upd maxvol tol fuel s s' h
  refine ⟨k, e, not_lt.mp hx, hall, fun j _ => ?_⟩
  have hb := BInv.iterate n upd maxvol s hord j
  refine ⟨hb, fun hP hQ => ⟨?_, ?_⟩⟩
  · rcases hb.above with e' | e'
    · rw [e']; exact hP
    · exact e'
  · rcases hb.below with e' | e'
    · rw [e']; exact hQ
    · exact e'

/-- non-vacuity: a bisection over ℚ (two variables, update `clip(1/λ, 0, 1)` each, target volume 1) started on the
    ordered bracket `[0, 4]` terminates within the fuel -/
example : (bisect 2 (fun (l : ℚ) _ => clip (1 / l) 0 1) 1 (1/2) 10 ⟨0, 4, none, none⟩).isSome = true := by
  decide +kernel

/-- **volume to bisection tolerance from a modulus of continuity** (any update `upd`, any `sqrt`): if both ends of the
    bracket moved during the bisection, the volume of the returned design differs from the target by at most `ε`, where
    `ε` bounds the variation of the volume over any two multipliers of the initial bracket that are at most `l1l2tol`
    apart.  (The theorems below derive such a modulus, explicitly, for the coded update.) -/
theorem oc_volume_tolerance_of_modulus (n : Nat) (upd : α → Nat → α) (maxvol tol ε : α) (fuel : Nat) (s s' : BState α)
    (hord : s.l1 ≤ s.l2) (h : bisect n upd maxvol tol fuel s = some s')
    (hmod : ∀ a b, s.l1 ≤ a → a ≤ b → b ≤ s.l2 → b - a ≤ tol → volF n upd a - volF n upd b ≤ ε)
    (hl : s'.l1 ≠ s.l1) (hu : s'.l2 ≠ s.l2) :
    ∃ xn, s'.xnew = some xn ∧ |volume n (ofArr xn) - maxvol| ≤ ε := by
  obtain ⟨hb, hw⟩ := bisect_inv n upd maxvol tol fuel s s' hord h
  have hP : maxvol < volF n upd s'.l1 := hb.above.resolve_left hl
  have hQ : volF n upd s'.l2 ≤ maxvol := hb.below.resolve_left hu
  have hε := hmod s'.l1 s'.l2 hb.lo (hb.ord hord) hb.hi hw
  rcases hb.xnew with ⟨_, e, _⟩ | ⟨lm, hlm, e⟩
  · exact absurd e hl
  · refine ⟨_, e, ?_⟩
    rw [volume_ofArr_freeze]
    change |volF n upd lm - maxvol| ≤ ε
    rw [abs_le]
    rcases hlm with e' | e' <;> rw [e'] <;> constructor <;> linarith

/-- non-vacuity: in the bisection of the example above both ends of the bracket `[0, 4]` move -/
example : (bisect 2 (fun (l : ℚ) _ => clip (1 / l) 0 1) 1 (1/2) 10 ⟨0, 4, none, none⟩).map
    (fun s' => decide (s'.l1 ≠ 0 ∧ s'.l2 ≠ 4)) = some true := by
  decide +kernel

/-! ## volume tolerance of the coded update (square root under its contract `SqrtOK`: `sqrt a ≥ 0` and
    `sqrt a · sqrt a = a` for `a ≥ 0`; `Real.sqrt` satisfies it) -/

/-- **the volume of the update is Lipschitz in the multiplier on `[l, ∞)`, `l > 0`**, with an explicit constant:
    for a non-negative design, non-positive (clipped) gradient and `0 < l ≤ l'`,
    `0 ≤ vol(l) − vol(l') ≤ (Σᵢ xᵢ·sqrt(−gᵢ)) · (l' − l) / (2·l·sqrt l)`
    (each component `clip(xᵢ·sqrt(−gᵢ/λ), …)` is monotone and Lipschitz in `λ`; `clip` is 1-Lipschitz). -/
theorem oc_volume_lipschitz (sqrt : α → α) (hs : SqrtOK sqrt) (n : Nat) (xmin xmax move xval dfdx : Nat → α)
    (hx : ∀ i, i < n → 0 ≤ xval i) (hg : ∀ i, i < n → dfdx i ≤ 0) (l l' : α) (hl : 0 < l) (hll : l ≤ l') :
    0 ≤ volF n (update sqrt xmin xmax move xval dfdx) l - volF n (update sqrt xmin xmax move xval dfdx) l' ∧
    volF n (update sqrt xmin xmax move xval dfdx) l - volF n (update sqrt xmin xmax move xval dfdx) l'
      ≤ (∑ i ∈ Finset.range n, xval i * sqrt (-(dfdx i))) * (l' - l) / (2 * l * sqrt l) :=
  ⟨sub_nonneg.mpr (volume_antitone hs n xmin xmax move xval dfdx hx hg l l' hl hll),
   volume_lipschitz hs n xmin xmax move xval dfdx hx hg l l' hl hll⟩

/-- **volume to bisection tolerance, in terms of the returned bracket**: bracket started with `0 ≤ l1 ≤ l2` (the defaults
    are `0`, `10⁵`); if the lower end moved (some midpoint had volume above the target) and the upper end moved or the
    initial upper end already had volume at most the target, then on exit `0 < l1`, `l2 − l1 ≤ l1l2tol`, and the volume
    of the returned design `xnew` satisfies
    `|Σ xnew − maxvol| ≤ vol(l1) − vol(l2) ≤ A·(l2 − l1)/(2·l1·sqrt l1) ≤ A·l1l2tol/(2·l1·sqrt l1)`, `A = Σᵢ xᵢ·sqrt(−gᵢ)`. -/
theorem oc_volume_tolerance (sqrt : α → α) (hs : SqrtOK sqrt) (n : Nat) (xmin xmax move xval dfdx : Nat → α)
    (hx : ∀ i, i < n → 0 ≤ xval i) (hg : ∀ i, i < n → dfdx i ≤ 0) (maxvol tol : α) (fuel : Nat) (s s' : BState α)
    (h0 : 0 ≤ s.l1) (hord : s.l1 ≤ s.l2)
    (h : bisect n (update sqrt xmin xmax move xval dfdx) maxvol tol fuel s = some s')
    (hl : s'.l1 ≠ s.l1)
    (hu : s'.l2 ≠ s.l2 ∨ volF n (update sqrt xmin xmax move xval dfdx) s.l2 ≤ maxvol) :
    0 < s'.l1 ∧ s'.l2 - s'.l1 ≤ tol ∧ ∃ xn, s'.xnew = some xn ∧
      |volume n (ofArr xn) - maxvol|
        ≤ (∑ i ∈ Finset.range n, xval i * sqrt (-(dfdx i))) * (s'.l2 - s'.l1) / (2 * s'.l1 * sqrt s'.l1) ∧
      |volume n (ofArr xn) - maxvol|
        ≤ (∑ i ∈ Finset.range n, xval i * sqrt (-(dfdx i))) * tol / (2 * s'.l1 * sqrt s'.l1) := by
  obtain ⟨hb, hw⟩ := bisect_inv n _ maxvol tol fuel s s' hord h
  have hpos : 0 < s'.l1 := lt_of_le_of_lt h0 (lt_of_le_of_ne hb.lo (Ne.symm hl))
  have hQ : volF n (update sqrt xmin xmax move xval dfdx) s'.l2 ≤ maxvol := by
    rcases hu with hu | hu
    · exact hb.below.resolve_left hu
    · rcases hb.below with e | e
      · rw [e]; exact hu
      · exact e
  obtain ⟨xn, e, hbound⟩ := bisect_exit_volume hs n xmin xmax move xval dfdx hx hg maxvol tol fuel s s' hord h hpos hl hQ
  refine ⟨hpos, hw, xn, e, hbound, le_trans hbound ?_⟩
  have hw0 : 0 ≤ s'.l2 - s'.l1 := sub_nonneg.mpr (hb.ord hord)
  exact ocBound_mono hs _ _ _ _ _ (ocA_nonneg hs n xval dfdx hx hg) hw (le_trans hw0 hw) hpos le_rfl

/-- **volume to bisection tolerance whenever the target is reachable** (a-priori form).  Bracket started with
    `0 ≤ l1init ≤ l2init`, `0 < l2init`.  The target is reachable: the initial upper end has volume at most the target, and
    some multiplier `λ₀` with `l1init + l1l2tol ≤ λ₀`, `l1l2tol < λ₀` has volume above it.  Then the returned design
    satisfies `|Σ xnew − maxvol| ≤ C · l1l2tol` with the explicit, tolerance-independent-to-first-order constant
    `C = A / (2·(λ₀ − l1l2tol)·sqrt(λ₀ − l1l2tol))`, `A = Σᵢ xᵢ·sqrt(−gᵢ)`. -/
theorem oc_volume_tolerance_reachable (sqrt : α → α) (hs : SqrtOK sqrt) (n : Nat) (xmin xmax move xval dfdx : Nat → α)
    (hx : ∀ i, i < n → 0 ≤ xval i) (hg : ∀ i, i < n → dfdx i ≤ 0) (maxvol tol : α) (fuel : Nat) (s s' : BState α)
    (h0 : 0 ≤ s.l1) (hord : s.l1 ≤ s.l2) (h2 : 0 < s.l2)
    (h : bisect n (update sqrt xmin xmax move xval dfdx) maxvol tol fuel s = some s')
    (lam0 : α) (hlam1 : s.l1 + tol ≤ lam0) (hlam2 : tol < lam0)
    (hreach : maxvol < volF n (update sqrt xmin xmax move xval dfdx) lam0)
    (hQ : volF n (update sqrt xmin xmax move xval dfdx) s.l2 ≤ maxvol) :
    ∃ xn, s'.xnew = some xn ∧
      |volume n (ofArr xn) - maxvol|
        ≤ (∑ i ∈ Finset.range n, xval i * sqrt (-(dfdx i))) * tol / (2 * (lam0 - tol) * sqrt (lam0 - tol)) := by
  obtain ⟨hb, hw⟩ := bisect_inv n _ maxvol tol fuel s s' hord h
  obtain ⟨_, hpos2⟩ := bisect_pos n _ maxvol tol fuel s s' h0 h2 h
  have hQ' : volF n (update sqrt xmin xmax move xval dfdx) s'.l2 ≤ maxvol := by
    rcases hb.below with e | e
    · rw [e]; exact hQ
    · exact e
  have hlt : lam0 < s'.l2 := by
    by_contra hc
    have := volume_antitone hs n xmin xmax move xval dfdx hx hg s'.l2 lam0 hpos2 (not_lt.mp hc)
    linarith
  have hμ : 0 < lam0 - tol := sub_pos.mpr hlam2
  have hμl : lam0 - tol < s'.l1 := by linarith
  have hpos : 0 < s'.l1 := lt_trans hμ hμl
  have hl : s'.l1 ≠ s.l1 := by
    intro e; rw [e] at hμl; linarith
  obtain ⟨xn, e, hbound⟩ := bisect_exit_volume hs n xmin xmax move xval dfdx hx hg maxvol tol fuel s s' hord h hpos hl hQ'
  refine ⟨xn, e, le_trans hbound ?_⟩
  have hw0 : 0 ≤ s'.l2 - s'.l1 := sub_nonneg.mpr (hb.ord hord)
  exact ocBound_mono hs _ _ _ _ _ (ocA_nonneg hs n xval dfdx hx hg) hw (le_trans hw0 hw) hμ hμl.le

/-- **every new design of a run**: an iteration of `minimize_oc` that continues (writes a new design back) from a
    non-negative design, with `0 ≤ l1init ≤ l2init`, `0 < l2init`, for which the target volume is reachable in the sense
    above (for the update built from the CURRENT design and the clipped gradient `dfdx` the network returned), produces
    a design whose volume is within `C · l1l2tol` of `maxvol`, and the variable signals receive its slices. -/
theorem oc_iteration_volume (sqrt : α → α) (hs : SqrtOK sqrt) (prob : Problem α) (p : Params α)
    (cumulative : List Nat) (nsig fuel : Nat) (s s' : LState α)
    (h : iteration sqrt prob p cumulative nsig fuel s = .ok (.cont s'))
    (hx : ∀ i, i < s.xval.size → 0 ≤ ofArr s.xval i)
    (h0 : 0 ≤ p.l1init) (hord : p.l1init ≤ p.l2init) (h2 : 0 < p.l2init)
    (dfdx : Nat → α) (hdf : dfdx = ofArr (freeze s.xval.size (clipGrad (prob (ofList (concat s.states))).2)))
    (lam0 : α) (hlam1 : p.l1init + p.l1l2tol ≤ lam0) (hlam2 : p.l1l2tol < lam0)
    (hreach : p.maxvol < volF s.xval.size (update sqrt p.xmin p.xmax p.move (ofArr s.xval) dfdx) lam0)
    (hQ : volF s.xval.size (update sqrt p.xmin p.xmax p.move (ofArr s.xval) dfdx) p.l2init ≤ p.maxvol) :
    |volume s.xval.size (ofArr s'.xval) - p.maxvol|
        ≤ (∑ i ∈ Finset.range s.xval.size, ofArr s.xval i * sqrt (-(dfdx i))) * p.l1l2tol
            / (2 * (lam0 - p.l1l2tol) * sqrt (lam0 - p.l1l2tol)) ∧
      s'.states = writeBack s'.xval.toList cumulative nsig := by
  obtain ⟨b, hb, hxn, hst⟩ := iteration_cont_spec sqrt prob p cumulative nsig fuel s s' h
  rw [← hdf] at hb
  have hg : ∀ i, i < s.xval.size → dfdx i ≤ 0 := by
    intro i hi
    rw [hdf, ofArr_freeze _ _ i hi]
    exact oc_clipGrad_nonpos _ i
  obtain ⟨xn, e, hbound⟩ := oc_volume_tolerance_reachable sqrt hs s.xval.size p.xmin p.xmax p.move (ofArr s.xval) dfdx
    hx hg p.maxvol p.l1l2tol fuel ⟨p.l1init, p.l2init, s.xnew, none⟩ b h0 hord h2 hb lam0 hlam1 hlam2 hreach hQ
  rw [hxn] at e
  have exn : s'.xval = xn := Option.some.inj e
  subst exn
  exact ⟨hbound, hst⟩

/-- non-vacuity: the contract is satisfiable (`Real.sqrt`), and all hypotheses of `oc_volume_tolerance_reachable` hold in a
    bisection over `ℝ` that is carried out by hand in `Lemmas/OCVolumeReal.lean`: one variable `x = 1`, gradient `-1`,
    bounds `[0, 1]`, move `1`, target `1/2`, bracket `[0, 8] → [0, 4] → [2, 4]`, tolerance `2`, `λ₀ = 3` -/
example : SqrtOK Real.sqrt ∧
    ∃ s' xn, bisect 1 demoUpd (1 / 2) 2 5 ⟨0, 8, none, none⟩ = some s' ∧ s'.xnew = some xn ∧
      |volume 1 (ofArr xn) - 1 / 2|
        ≤ (∑ _i ∈ Finset.range 1, (1:ℝ) * Real.sqrt (-(-1))) * 2 / (2 * (3 - 2) * Real.sqrt (3 - 2)) := by
  refine ⟨sqrtOK_real, ?_⟩
  obtain ⟨s', h, _, _⟩ := demo_bisect
  obtain ⟨xn, e, hb⟩ := oc_volume_tolerance_reachable Real.sqrt sqrtOK_real 1 (fun _ => 0) (fun _ => 1) (fun _ => 1)
    (fun _ => 1) (fun _ => -1) (fun _ _ => by norm_num) (fun _ _ => by norm_num) (1 / 2) 2 5 ⟨0, 8, none, none⟩ s'
    (by norm_num) (by norm_num) (by norm_num) h 3 (by norm_num) (by norm_num) demo_v3 demo_v8
  exact ⟨s', xn, h, e, hb⟩

/-! ## termination of the bisection; the separable objective `Σ cᵢ/xᵢ` -/

/-- **the `while` loop terminates**: a bracket of width at most `l1l2tol · 2^k` is resolved within `k` passes; the model's
    fuel (any value `≥ k+1`) does not run out and does not influence the result -/
theorem oc_bisection_terminates (n : Nat) (upd : α → Nat → α) (maxvol tol : α) (k fuel : Nat) (s : BState α)
    (hw : s.l2 - s.l1 ≤ tol * 2 ^ k) (hf : k + 1 ≤ fuel) :
    ∃ s', bisect n upd maxvol tol fuel s = some s' ∧ ∀ g, fuel ≤ g → bisect n upd maxvol tol g s = some s' := by
  obtain ⟨s', h⟩ := bisect_terminates n upd maxvol tol k s hw
  have h' := bisect_fuel_mono n upd maxvol tol _ s s' h fuel hf
  exact ⟨s', h', fun g hg => bisect_fuel_mono n upd maxvol tol _ s s' h' g hg⟩

/-- non-vacuity: the default bracket `[0, 1e9]` with `l1l2tol = 1e-3` needs `k = 40` halvings (`1e9 ≤ 1e-3·2^40`) -/
example : ((10:ℚ)^9 - 0 ≤ (1/1000) * 2 ^ 40) ∧
    (bisect 2 (fun (l : ℚ) _ => clip (1 / l) 0 1) 1 (1/2) 5 ⟨0, 4, none, none⟩).isSome = true := by
  refine ⟨by norm_num, by decide +kernel⟩

/-- **no iteration of a run hangs in the bisection**: with enough fuel the model never reports `"Diverges"` -/
theorem oc_iteration_terminates (sqrt : α → α) (prob : Problem α) (p : Params α) (cumulative : List Nat)
    (nsig fuel k : Nat) (s : LState α) (hw : p.l2init - p.l1init ≤ p.l1l2tol * 2 ^ k) (hf : k + 1 ≤ fuel) :
    iteration sqrt prob p cumulative nsig fuel s ≠ .error "Diverges" :=
  iteration_not_diverges sqrt prob p cumulative nsig fuel k s hw hf

/-- **separable objective, one update**: for `f = Σ cⱼ/xⱼ` (gradient `−cⱼ/xⱼ²`, `cⱼ ≥ 0`) the coded update of a positive
    variable is `clip(sqrt(cᵢ/λ), lower, upper)`: the un-clipped value does not depend on the current design -/
theorem oc_separable_update (sqrt : α → α) (hs : SqrtOK sqrt) (xmin xmax move xval c : Nat → α) (l : α) (i : Nat)
    (hx : 0 < xval i) (hc : 0 ≤ c i) (hl : 0 < l) :
    update sqrt xmin xmax move xval (fun j => -(c j / (xval j * xval j))) l i
      = clip (sqrt (c i / l)) (lower xmin move xval i) (upper xmax move xval i) := by
  unfold update
  rw [separable_update hs (xval i) (c i) l hx hc hl]

/-- **separable objective, optimality**: if the update for the multiplier `λ > 0` has exactly the target volume, it
    minimises `Σ cᵢ/xᵢ` over all designs `y` of the move-limited box `[lower, upper]` (positive lower ends) whose volume
    does not exceed the target.  Where the move limits do not bind this is the analytic optimum of the problem
    `min Σ cᵢ/xᵢ  s.t.  Σ xᵢ ≤ V, xmin ≤ x ≤ xmax`, reached in ONE iteration from any positive design. -/
theorem oc_separable_optimal (sqrt : α → α) (hs : SqrtOK sqrt) (n : Nat) (xmin xmax move xval c : Nat → α) (l maxvol : α)
    (hx : ∀ i, i < n → 0 < xval i) (hc : ∀ i, i < n → 0 ≤ c i) (hl : 0 < l)
    (hlo : ∀ i, i < n → 0 < lower xmin move xval i)
    (hlh : ∀ i, i < n → lower xmin move xval i ≤ upper xmax move xval i)
    (hvol : volume n (update sqrt xmin xmax move xval (fun j => -(c j / (xval j * xval j))) l) = maxvol)
    (y : Nat → α) (hy1 : ∀ i, i < n → lower xmin move xval i ≤ y i) (hy2 : ∀ i, i < n → y i ≤ upper xmax move xval i)
    (hyv : volume n y ≤ maxvol) :
    sumRange n (fun i => c i / update sqrt xmin xmax move xval (fun j => -(c j / (xval j * xval j))) l i)
      ≤ sumRange n (fun i => c i / y i) := by
  set u := update sqrt xmin xmax move xval (fun j => -(c j / (xval j * xval j))) l with hu
  have hterm : ∀ i, i < n → c i / u i + l * u i ≤ c i / y i + l * y i := by
    intro i hi
    rw [hu, oc_separable_update sqrt hs xmin xmax move xval c l i (hx i hi) (hc i hi) hl]
    have hq : 0 ≤ c i / l := div_nonneg (hc i hi) hl.le
    exact lagr_min (c i) l (sqrt (c i / l)) _ _ (y i) hl (hs.nonneg _ hq) (hs.sq _ hq) (hlo i hi) (hlh i hi)
      (hy1 i hi) (hy2 i hi)
  have hsum := volume_mono n (fun i => c i / u i + l * u i) (fun i => c i / y i + l * y i) hterm
  unfold volume at hsum hvol hyv
  rw [sumRange_add', sumRange_add', sumRange_mul_left', sumRange_mul_left', hvol] at hsum
  have : l * sumRange n y ≤ l * maxvol := mul_le_mul_of_nonneg_left hyv hl.le
  linarith

/-- **the analytic optimum is a fixed point of the update**: a positive design with `xᵢ = sqrt(cᵢ/λ)` inside `[xmin, xmax]`
    (non-negative move limit) is reproduced by the OC update for that multiplier, so the loop stops there through its
    step-size test -/
theorem oc_separable_fixed_point (sqrt : α → α) (hs : SqrtOK sqrt) (xmin xmax move xval c : Nat → α) (l : α) (i : Nat)
    (hx : 0 < xval i) (hc : 0 ≤ c i) (hl : 0 < l) (hopt : xval i = sqrt (c i / l))
    (h1 : xmin i ≤ xval i) (h2 : xval i ≤ xmax i) (hm : 0 ≤ move i) :
    update sqrt xmin xmax move xval (fun j => -(c j / (xval j * xval j))) l i = xval i := by
  rw [oc_separable_update sqrt hs xmin xmax move xval c l i hx hc hl, ← hopt, clip_eq]
  have hlo : lower xmin move xval i ≤ xval i := (lower_le xmin move xval i h1 hm).2.2
  have hhi : xval i ≤ upper xmax move xval i := (le_upper xmax move xval i h2 hm).2.2
  rw [max_eq_left hlo, min_eq_left hhi]

/-- non-vacuity of `oc_separable_fixed_point` over ℝ: `c = 4`, `λ = 1`, `x = 2 = sqrt(4/1)`, bounds `[1, 3]` -/
example : (2:ℝ) = Real.sqrt (4 / 1) ∧ (1:ℝ) ≤ 2 ∧ (2:ℝ) ≤ 3 := by
  refine ⟨?_, by norm_num, by norm_num⟩
  rw [show (4:ℝ) / 1 = 2 * 2 by norm_num]
  exact (Real.sqrt_mul_self (by norm_num)).symm

/-- non-vacuity over ℝ: two variables, `c = (1, 4)`, current design `(1, 1)`, bounds `[1/10, 10]`, no binding move limit,
    `λ = 1`: the update is `(1, 2)` with volume 3, and it beats the feasible design `(3/2, 3/2)`: `1/1 + 4/2 = 3 ≤ 2/3 + 8/3` -/
example : update Real.sqrt (fun _ => 1/10) (fun _ => 10) (fun _ => 100) (fun _ => 1)
      (fun j => -((if j = 0 then (1:ℝ) else 4) / ((1:ℝ) * 1))) 1 1 = 2 := by
  rw [oc_separable_update Real.sqrt sqrtOK_real _ _ _ _ (fun j => if j = 0 then (1:ℝ) else 4) 1 1 (by norm_num)
    (by norm_num) (by norm_num)]
  have : Real.sqrt ((if (1:ℕ) = 0 then (1:ℝ) else 4) / 1) = 2 := by
    rw [show ((if (1:ℕ) = 0 then (1:ℝ) else 4) / 1) = 2 * 2 by norm_num]
    exact Real.sqrt_mul_self (by norm_num)
  rw [this, clip_eq, lower, upper, vmax_eq, vmin_eq]
  norm_num


/-! ## write-back -/

/-- **the new design is written back to the right variable signals**: for states `L` of the variable signals and a new
    design `v` of the same total length, the slices `v[cumlens[i]:cumlens[i+1]]` have the lengths of the old states, signal
    `i` receives at position `k` the entry `cumlens[i] + k` of `v`, and concatenating the new states gives `v` back -/
theorem oc_writeback_right_signal {β : Type} (L : List (List β)) (v : List β) (h : v.length = (concat L).length) :
    (writeBack v (cumlens L) L.length).map List.length = L.map List.length ∧
    concat (writeBack v (cumlens L) L.length) = v ∧
    ∀ i k d, i < L.length → k < (L.getD i []).length →
      ((writeBack v (cumlens L) L.length).getD i []).getD k d = v.getD (cum L i + k) d := by
  refine ⟨?_, concat_writeBack L v h, ?_⟩
  · rw [writeBack_eq_splitBy]
    apply splitBy_lengths
    rw [h, concat, List.length_flatten]
  · intro i k d hi hk
    have e : (writeBack v (cumlens L) L.length).getD i [] = slice v (cum L i) (cum L (i+1)) := by
      unfold writeBack
      rw [List.getD_eq_getElem?_getD, List.getElem?_map, List.getElem?_range hi]
      simp only [Option.map_some, Option.getD_some]
      rw [cumlens_getD L i (by omega), cumlens_getD L (i+1) (by omega)]
    rw [e]
    apply slice_getD
    rw [cum_succ L i hi]; omega

example : writeBack [10, 20, 30, 40] (cumlens [[1, 2], [3], [4]]) 3 = [[10, 20], [30], [40]] := by decide

end Field
end PymotoVerif.C17
