/-
C17 — The optimality-criteria update keeps bounds, move limit and volume.
Property theorems ONLY (helper lemmas live in `Lemmas/OC.lean`, `Lemmas/DesignVec.lean`).

Model: `Core/OC.lean` (transcription of `pymoto/routines.py` `minimize_oc`), `Core/DesignVec.lean`
(`_concatenate_to_array`, slice write-back).  `sqrt` is a parameter of the model; the network is the parameter
`prob` (any function from the design to an objective value and a gradient), so the run theorems hold for every
objective, not only for `Σ cᵢ/xᵢ`.  Scalars: any linearly ordered field (ℚ, ℝ, …): exact arithmetic.

Proved: bounds and move limit of every update and — by induction over the iterations — of every design of every run;
the volume is non-increasing in the multiplier; the bracket invariant of the bisection and its exit width; the slices
written back are the right ones.  Partial: "volume equal to the target to bisection tolerance" is proved from a modulus
of continuity of the volume that is a hypothesis (`oc_volume_tolerance_partial`); convergence of the fixed-point
iteration to the analytic optimum is NOT proved (observed by the harness oracle only).
-/
import PymotoVerif.Lemmas.OC
import Mathlib.Data.List.Chain

namespace PymotoVerif.C17
open PymotoVerif PymotoVerif.DV PymotoVerif.OC

section Field
variable {α : Type} [Field α] [LinearOrder α] [IsStrictOrderedRing α]

/-! ## one update -/

/-- **bounds**: whatever `sqrt`, the gradient and the multiplier are, the clipped update of a variable that lies in
    `[xmin, xmax]` (with a non-negative move limit) lies in `[xmin, xmax]` -/
theorem oc_in_bounds (sqrt : α → α) (xmin xmax move xval dfdx : Nat → α) (lam : α) (i : Nat)
    (h1 : xmin i ≤ xval i) (h2 : xval i ≤ xmax i) (hm : 0 ≤ move i) :
    xmin i ≤ update sqrt xmin xmax move xval dfdx lam i ∧ update sqrt xmin xmax move xval dfdx lam i ≤ xmax i := by
  obtain ⟨a, b⟩ := update_mem sqrt xmin xmax move xval dfdx lam i h1 h2 hm
  exact ⟨le_trans (lower_le xmin move xval i h1 hm).1 a, le_trans b (le_upper xmax move xval i h2 hm).1⟩

/-- the hypotheses are satisfiable (ℚ, `sqrt := id`, `x = 1/2 ∈ [0, 1]`, move `1/5`) -/
example : (0:ℚ) ≤ update (fun a : ℚ => a) (fun _ => 0) (fun _ => 1) (fun _ => 1/5) (fun _ => 1/2) (fun _ => -4) 1 0 :=
  (oc_in_bounds (fun a : ℚ => a) (fun _ => 0) (fun _ => 1) (fun _ => 1/5) (fun _ => 1/2) (fun _ => -4) 1 0
    (by norm_num) (by norm_num) (by norm_num)).1

/-- **move limit**: under the same hypotheses the update differs from the current value by at most `move` -/
theorem oc_move_limit (sqrt : α → α) (xmin xmax move xval dfdx : Nat → α) (lam : α) (i : Nat)
    (h1 : xmin i ≤ xval i) (h2 : xval i ≤ xmax i) (hm : 0 ≤ move i) :
    |update sqrt xmin xmax move xval dfdx lam i - xval i| ≤ move i := by
  obtain ⟨a, b⟩ := update_mem sqrt xmin xmax move xval dfdx lam i h1 h2 hm
  have l := (lower_le xmin move xval i h1 hm).2.1
  have u := (le_upper xmax move xval i h2 hm).2.1
  rw [abs_le]; constructor <;> linarith

/-- the move limit is attained and the bound respected in a concrete update (ℚ, `sqrt := id`):
    `x = 1/2`, `-g/λ = 4`, candidate `2`, move `1/5` ⇒ `7/10` -/
example : update (fun a : ℚ => a) (fun _ => 0) (fun _ => 1) (fun _ => 1/5) (fun _ => 1/2) (fun _ => -4) 1 0 = 7/10 := by
  norm_num [update, lower, upper, clip, vmin, vmax]

/-! ## every design of every run (induction over the iterations) -/

/-- **all iterations**: if the initial design lies in `[xmin, xmax]` and `move ≥ 0`, then every design the network is
    evaluated at during `minimize_oc`, and the design left in the variable signals at the end, has the right length
    and lies in `[xmin, xmax]`, and each of them differs from its predecessor by at most `move`
    (for every objective `prob`, every `sqrt`, every tolerance, volume target, bracket and iteration count; bounds scalar,
    per variable or a one-element array: `xmn xmx mvv` are their numpy broadcasts) -/
theorem oc_run_bounds_and_move (sqrt : α → α) (prob : Problem α) (L0 : List (List α))
    (tolx tolf : α) (maxit : Nat) (xmin xmax move : Bnd α) (l1init l2init l1l2tol : α) (maxvol : Option α)
    (fuel : Nat) (xmn xmx mvv : Nat → α)
    (h1 : bcast (concat L0).length xmin = .ok xmn) (h2 : bcast (concat L0).length xmax = .ok xmx)
    (h3 : bcast (concat L0).length move = .ok mvv)
    (hx : ∀ i, i < (concat L0).length → xmn i ≤ ofList (concat L0) i ∧ ofList (concat L0) i ≤ xmx i)
    (hm : ∀ i, i < (concat L0).length → 0 ≤ mvv i) (o : Out α)
    (h : minimizeOC sqrt prob (L0.map some) tolx tolf maxit xmin xmax move l1init l2init l1l2tol maxvol fuel = .ok o) :
    (∀ t ∈ o.trace ++ [concat o.states], t.length = (concat L0).length ∧
        ∀ i, i < (concat L0).length → xmn i ≤ ofList t i ∧ ofList t i ≤ xmx i) ∧
    List.IsChain (fun older newer => ∀ i, i < (concat L0).length → |ofList newer i - ofList older i| ≤ mvv i)
      (o.trace ++ [concat o.states]) := by
  obtain ⟨p, e1, e2, e3, s', hg, et, es⟩ :=
    minimizeOC_good sqrt prob L0 tolx tolf maxit xmin xmax move l1init l2init l1l2tol maxvol fuel xmn xmx mvv
      h1 h2 h3 hx hm o h
  subst e1 e2 e3
  rw [et, es, hg.st]
  constructor
  · intro t ht
    rcases List.mem_append.mp ht with ht | ht
    · have ht' : t ∈ s'.trace := List.mem_reverse.mp ht
      exact ⟨hg.tr_len t ht', hg.tr_inb t ht'⟩
    · have : t = s'.xval.toList := by simpa using ht
      subst this
      refine ⟨by rw [Array.length_toList]; exact hg.size, ?_⟩
      rw [ofList_toList]; exact hg.inb
  · have : s'.trace.reverse ++ [s'.xval.toList] = (s'.xval.toList :: s'.trace).reverse := by simp
    rw [this, List.isChain_reverse]
    exact hg.chain

/-- non-vacuity: a run over ℚ (`sqrt := id`, objective `x₀ + x₁ … ` with gradient `-1`, two signals, scalar bounds
    `[0, 1]`, move `1/5`, three iterations) satisfies the hypotheses and returns normally -/
example : (minimizeOC (fun a : ℚ => a) (fun x => (x 0 + x 1 + x 2, fun _ => -1)) ([[1/2, 1/4], [3/4]].map some)
    0 0 3 (.scalar 0) (.scalar 1) (.scalar (1/5)) 0 4 (1/4) none 50).toOption.isSome = true := by
  decide +kernel

/-! ## volume as a function of the multiplier -/

/-- **the volume of the update is non-increasing in `λ`** (for `λ > 0`, non-negative design, clipped gradient `≤ 0`,
    and a monotone `sqrt` — the only fact about the square root that is used) -/
theorem oc_volume_monotone (sqrt : α → α) (hsq : ∀ a b, a ≤ b → sqrt a ≤ sqrt b)
    (n : Nat) (xmin xmax move xval dfdx : Nat → α)
    (hx : ∀ i, i < n → 0 ≤ xval i) (hg : ∀ i, i < n → dfdx i ≤ 0) (l l' : α) (hl : 0 < l) (hll : l ≤ l') :
    volume n (update sqrt xmin xmax move xval dfdx l') ≤ volume n (update sqrt xmin xmax move xval dfdx l) := by
  apply volume_mono
  intro i hi
  unfold update
  apply clip_mono
  apply mul_le_mul_of_nonneg_left _ (hx i hi)
  apply hsq
  exact div_le_div_of_nonneg_left (by linarith [hg i hi]) hl hll

omit [IsStrictOrderedRing α] in
/-- the clipped gradient satisfies the hypothesis of `oc_volume_monotone` whatever the network returns -/
theorem oc_clipGrad_nonpos (g : Nat → α) (i : Nat) : clipGrad g i ≤ 0 := by
  unfold clipGrad; rw [vmin_eq]; exact min_le_right _ _

example : ∃ (xval dfdx : Nat → ℚ), (∀ i, i < 2 → 0 ≤ xval i) ∧ (∀ i, i < 2 → dfdx i ≤ 0) ∧ (0:ℚ) < 1 ∧ (1:ℚ) ≤ 2 :=
  ⟨fun _ => 1/2, fun _ => -1, fun _ _ => by norm_num, fun _ _ => by norm_num, by norm_num, by norm_num⟩

/-! ## bisection -/

/-- **bracket invariant**: the `while` loop is the iterated body; after every pass (`j ≤ k`) the bracket stays inside the
    initial one and ordered, a moved lower end has volume above the target, a moved upper end has volume at most the
    target — hence `vol(l1) > maxvol ≥ vol(l2)` throughout whenever it held initially —, the loop condition held before
    every pass, and on exit `l2 - l1 ≤ l1l2tol` as coded.  (`upd l` is the update for the multiplier `l`.) -/
theorem oc_bracket_invariant (n : Nat) (upd : α → Nat → α) (maxvol tol : α) (fuel : Nat) (s s' : BState α)
    (hord : s.l1 ≤ s.l2) (h : bisect n upd maxvol tol fuel s = some s') :
    ∃ k, s' = (bisectStep n upd maxvol)^[k] s ∧ s'.l2 - s'.l1 ≤ tol ∧
      (∀ j, j < k → tol < ((bisectStep n upd maxvol)^[j] s).l2 - ((bisectStep n upd maxvol)^[j] s).l1) ∧
      ∀ j, j ≤ k → BInv n upd maxvol s ((bisectStep n upd maxvol)^[j] s) ∧
        (maxvol < volF n upd s.l1 → volF n upd s.l2 ≤ maxvol →
          maxvol < volF n upd ((bisectStep n upd maxvol)^[j] s).l1 ∧
          volF n upd ((bisectStep n upd maxvol)^[j] s).l2 ≤ maxvol) := by
  obtain ⟨k, _, e, hx, hall⟩ := bisect_iterate n upd maxvol tol fuel s s' h
  refine ⟨k, e, not_lt.mp hx, hall, fun j _ => ?_⟩
  have hb := BInv.iterate n upd maxvol s hord j
  refine ⟨hb, fun hP hQ => ⟨?_, ?_⟩⟩
  · rcases hb.above with e' | e'
    · rw [e']; exact hP
    · exact e'
  · rcases hb.below with e' | e'
    · rw [e']; exact hQ
    · exact e'

/-- non-vacuity: a bisection over ℚ (two variables, update `clip(1/λ, 0, 1)` each, target volume 1) started on the
    ordered bracket `[0, 4]` terminates within the fuel -/
example : (bisect 2 (fun (l : ℚ) _ => clip (1 / l) 0 1) 1 (1/2) 10 ⟨0, 4, none, none⟩).isSome = true := by
  decide +kernel

/-- **volume to bisection tolerance (partial)**.  Full claim of the property: "the new design has total volume equal to
    the prescribed maximum volume to bisection tolerance whenever that volume is reachable within the move limits".
    Proved here: if the target is reachable in the sense that both ends of the bracket moved during the bisection, then
    the volume of the returned design differs from the target by at most `ε`, where `ε` bounds the variation of the volume
    over any two multipliers of the initial bracket that are at most `l1l2tol` apart.
    Missing: `ε` is a hypothesis (a modulus of continuity of `λ ↦ Σ clip(x·sqrt(-g/λ), …)`, which depends on `sqrt`, on the
    data and — for `l1init = 0` — is not uniform near `λ = 0`); it is not derived from `l1l2tol`. -/
theorem oc_volume_tolerance_partial (n : Nat) (upd : α → Nat → α) (maxvol tol ε : α) (fuel : Nat) (s s' : BState α)
    (hord : s.l1 ≤ s.l2) (h : bisect n upd maxvol tol fuel s = some s')
    (hmod : ∀ a b, s.l1 ≤ a → a ≤ b → b ≤ s.l2 → b - a ≤ tol → volF n upd a - volF n upd b ≤ ε)
    (hl : s'.l1 ≠ s.l1) (hu : s'.l2 ≠ s.l2) :
    ∃ xn, s'.xnew = some xn ∧ |volume n (ofArr xn) - maxvol| ≤ ε := by
  obtain ⟨hb, hw⟩ := bisect_inv n upd maxvol tol fuel s s' hord h
  have hP : maxvol < volF n upd s'.l1 := hb.above.resolve_left hl
  have hQ : volF n upd s'.l2 ≤ maxvol := hb.below.resolve_left hu
  have hε := hmod s'.l1 s'.l2 hb.lo (hb.ord hord) hb.hi hw
  rcases hb.xnew with ⟨_, e, _⟩ | ⟨lm, hlm, e⟩
  · exact absurd e hl
  · refine ⟨_, e, ?_⟩
    rw [volume_ofArr_freeze]
    change |volF n upd lm - maxvol| ≤ ε
    rw [abs_le]
    rcases hlm with e' | e' <;> rw [e'] <;> constructor <;> linarith

/-- non-vacuity: in the bisection of the example above both ends of the bracket `[0, 4]` move -/
example : (bisect 2 (fun (l : ℚ) _ => clip (1 / l) 0 1) 1 (1/2) 10 ⟨0, 4, none, none⟩).map
    (fun s' => decide (s'.l1 ≠ 0 ∧ s'.l2 ≠ 4)) = some true := by
  decide +kernel

/-! ## write-back -/

/-- **the new design is written back to the right variable signals**: for states `L` of the variable signals and a new
    design `v` of the same total length, the slices `v[cumlens[i]:cumlens[i+1]]` have the lengths of the old states, signal
    `i` receives at position `k` the entry `cumlens[i] + k` of `v`, and concatenating the new states gives `v` back -/
theorem oc_writeback_right_signal {β : Type} (L : List (List β)) (v : List β) (h : v.length = (concat L).length) :
    (writeBack v (cumlens L) L.length).map List.length = L.map List.length ∧
    concat (writeBack v (cumlens L) L.length) = v ∧
    ∀ i k d, i < L.length → k < (L.getD i []).length →
      ((writeBack v (cumlens L) L.length).getD i []).getD k d = v.getD (cum L i + k) d := by
  refine ⟨?_, concat_writeBack L v h, ?_⟩
  · rw [writeBack_eq_splitBy]
    apply splitBy_lengths
    rw [h, concat, List.length_flatten]
  · intro i k d hi hk
    have e : (writeBack v (cumlens L) L.length).getD i [] = slice v (cum L i) (cum L (i+1)) := by
      unfold writeBack
      rw [List.getD_eq_getElem?_getD, List.getElem?_map, List.getElem?_range hi]
      simp only [Option.map_some, Option.getD_some]
      rw [cumlens_getD L i (by omega), cumlens_getD L (i+1) (by omega)]
    rw [e]
    apply slice_getD
    rw [cum_succ L i hi]; omega

example : writeBack [10, 20, 30, 40] (cumlens [[1, 2], [3], [4]]) 3 = [[10, 20], [30], [40]] := by decide

end Field
end PymotoVerif.C17
