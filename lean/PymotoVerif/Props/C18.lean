/-
C18 — Signals and slices alias state, isolate accumulations and reset cleanly.
Property theorems ONLY (helper lemmas live in `Lemmas/Signal.lean`).

Model: `Core/Signal.lean` (literal transcription of `Signal` / `SignalSlice` on an explicit heap of array objects).
The worlds `w` below are ARBITRARY (any heap, any holdings, hence any history of operations that led there); the
statements about operation sequences are by induction over the operation list.

`Frame N r T h h'` (Lemmas): from heap `h` to `h'` only new objects were allocated, no object below `N` other than `r`
changed, and of `r` at most the entries `T` changed (identity, dtype, shape, length kept).
`Step N r T w w'`: holdings of all signals and the caller's arrays are the same and `Frame N r T w.heap w'.heap`.

Slices of ANY nesting depth (`Lemmas/SignalNested.lean`): `NSel f w r p sp T shp'` says that the root signal of `p` holds the
whole array `r` in field `f` and that `compIdx` — the SPECIFICATION of nesting: index maps composed level by level —
gives the root positions `T` (slice shape `shp'`) for `p[sp]`; `p` is a chain of view slices (basic slices, tuples of
slices and integers) of any length, the last index `sp` is of any kind (view, or integer array = copy + write-back).
Abstract specification and refinement: `Lemmas/SignalSpec.lean`, `Lemmas/SignalRefine.lean`.
-/
import PymotoVerif.Lemmas.SignalRefine

namespace PymotoVerif.C18
open PymotoVerif PymotoVerif.Signal

/-! ## reset -/

/-- `reset()` without kept allocation clears the sensitivity (and nothing else; no heap object is touched) -/
theorem reset_clears (w : World) (i : Nat) (ka : Option Bool)
    (hk : ka.getD (w.sigs i).keepAlloc = false) :
    (resetPlain w i ka).2 = none ∧ ((resetPlain w i ka).1.sigs i).sens = .none ∧
    ((resetPlain w i ka).1.sigs i).state = (w.sigs i).state ∧
    (∀ j, j ≠ i → (resetPlain w i ka).1.sigs j = w.sigs j) ∧ (resetPlain w i ka).1.heap = w.heap := by
  cases hs : (w.sigs i).sens <;> simp [resetPlain, hs, hk, World.setSens] <;> intro j hj <;> simp [hj]

example : ((resetPlain ⟨⟨fun _ => ⟨false, [2], [⟨3, 0⟩, ⟨4, 0⟩]⟩, 1⟩, fun _ => ⟨.none, .arr 0, false⟩, 1, []⟩ 0 none).1.sigs 0).sens
    = .none := by decide

/-- `reset(keep_alloc=True)` (or a signal constructed with a sensitivity): the SAME object is kept and zeroed in place;
    every other heap object is untouched -/
theorem reset_keepalloc_zero_same_object (w : World) (i r : Nat) (ka : Option Bool)
    (hs : (w.sigs i).sens = .arr r) (hk : ka.getD (w.sigs i).keepAlloc = true) :
    let w' := (resetPlain w i ka).1
    (resetPlain w i ka).2 = none ∧ w'.sigs = w.sigs ∧
    (∀ j, j < (w.heap.objs r).data.length → (w'.heap.objs r).data.getD j 0 = 0) ∧
    (w'.heap.objs r).data.length = (w.heap.objs r).data.length ∧
    (w'.heap.objs r).shape = (w.heap.objs r).shape ∧ (w'.heap.objs r).cplx = (w.heap.objs r).cplx ∧
    (∀ r', r' ≠ r → w'.heap.objs r' = w.heap.objs r') ∧ w'.heap.next = w.heap.next := by
  have e : resetPlain w i ka = (⟨w.heap.write r (List.range (w.heap.objs r).data.length)
      (List.replicate (List.range (w.heap.objs r).data.length).length 0), w.sigs, w.nsig, w.exts⟩, none) := by
    simp [resetPlain, hs, hk, PVal.asView]
  rw [e]
  refine ⟨rfl, rfl, ?_, by simp, by simp, by simp, fun r' h => by simp [h], rfl⟩
  intro j hj
  rw [write_objs_self]
  have := writeList_getD_of_nodup (w.heap.objs r).data (List.range (w.heap.objs r).data.length)
    (List.replicate (List.range (w.heap.objs r).data.length).length 0) List.nodup_range j (by simpa using hj) (by simpa using hj)
    (by rw [getD_range _ _ hj]; exact hj)
  rw [getD_range _ _ hj] at this
  simp only [this]
  simp [List.getD_eq_getElem?_getD, hj]

example : ((resetPlain ⟨⟨fun _ => ⟨false, [2], [⟨3, 0⟩, ⟨4, 0⟩]⟩, 1⟩, fun _ => ⟨.none, .arr 0, false⟩, 1, []⟩ 0 (some true)).1.heap.objs 0).data
    = [0, 0] := by decide

/-- a Python-scalar sensitivity with kept allocation becomes the scalar 0 of the same type (`sens *= 0`) -/
theorem reset_keepalloc_scalar (w : World) (i : Nat) (c : Bool) (x : GI) (ka : Option Bool)
    (hs : (w.sigs i).sens = .sc c x) (hk : ka.getD (w.sigs i).keepAlloc = true) :
    ((resetPlain w i ka).1.sigs i).sens = .sc c 0 ∧ (resetPlain w i ka).1.heap = w.heap := by
  simp [resetPlain, hs, hk, PVal.asView, World.setSens]

/-! ## add_sensitivity never aliases -/

/-- FIRST `add_sensitivity(v)` with an array `v` (whole array or view into buffer `r`): the signal afterwards holds a
    FRESH object (`w.heap.next`), which is therefore not `v`, not held by any other signal (state or sensitivity) and
    not one of the caller's arrays; it carries a copy of `v`'s entries; no existing object is changed. -/
theorem add_no_alias (w : World) (i r : Nat) (idx shp : List Nat) (v : PVal) (hwf : w.WF)
    (hs : (w.sigs i).sens = .none) (hv : v.asView w.heap = some (r, idx, shp)) (hr : r < w.heap.next) :
    let w' := (addPlain w i v).1
    (addPlain w i v).2 = none ∧ (w'.sigs i).sens = .arr w.heap.next ∧ (w'.sigs i).state = (w.sigs i).state ∧
    (∀ j, j ≠ i → w'.sigs j = w.sigs j) ∧
    r ≠ w.heap.next ∧
    (∀ j f, (j, f) ≠ (i, Fld.sens) → ((w'.sigs j).get f).buf ≠ some w.heap.next) ∧
    w.heap.next ∉ w'.exts ∧
    (w'.heap.objs w.heap.next) = ⟨(w.heap.objs r).cplx, shp, w.heap.read r idx⟩ ∧
    (∀ r', r' < w.heap.next → w'.heap.objs r' = w.heap.objs r') := by
  have hne : v ≠ .none := by rintro rfl; simp [PVal.asView] at hv
  have e : addPlain w i v = (({ w with heap := (w.heap.alloc ⟨(w.heap.objs r).cplx, shp, w.heap.read r idx⟩).1 } : World).setSens i
      (.arr w.heap.next), none) := by
    cases v <;> simp_all [addPlain, deepcopy]
  rw [e]
  refine ⟨rfl, by simp [World.setSens], by simp [World.setSens], fun j hj => by simp [World.setSens, hj],
    Nat.ne_of_lt hr, ?_, ?_, by simp [World.setSens], ?_⟩
  · intro j f hjf hb
    by_cases hj : j = i
    · subst hj
      cases f with
      | sens => exact hjf rfl
      | state =>
        have := hwf.1 j .state _ (by simpa [World.setSens, Sig.get] using hb)
        omega
    · have := hwf.1 j f _ (by simpa [World.setSens, hj] using hb)
      omega
  · intro hm
    have := hwf.2 _ (by simpa [World.setSens] using hm)
    omega
  · intro r' hr'
    simp [World.setSens, Nat.ne_of_lt hr']

example : (⟨⟨fun _ => ⟨false, [2], [⟨3, 0⟩, ⟨4, 0⟩]⟩, 1⟩, fun _ => ⟨.none, .none, false⟩, 1, [0]⟩ : World).WF :=
  ⟨fun j f b h => by cases f <;> simp [Sig.get, PVal.buf] at h, fun e h => by simp at h; subst h; decide⟩

/-- LATER `add_sensitivity` on a signal that already holds an array: nothing is re-bound (the signal keeps its OWN
    object, all other holdings are the same) and the only heap object that can change is that own object — so the value
    passed in is neither stored nor (unless it is that very object) modified. -/
theorem add_in_place (w : World) (i r0 : Nat) (ds : PVal) (hs : (w.sigs i).sens = .arr r0) :
    let w' := (addPlain w i ds).1
    w'.sigs = w.sigs ∧ w'.exts = w.exts ∧ w'.heap.next = w.heap.next ∧
    (∀ r', r' ≠ r0 → w'.heap.objs r' = w.heap.objs r') := by
  unfold addPlain
  cases ds with
  | none => exact ⟨rfl, rfl, rfl, fun _ _ => rfl⟩
  | _ =>
    simp only [hs]
    split
    · exact ⟨rfl, rfl, rfl, fun _ _ => rfl⟩
    · rename_i h' hi
      obtain ⟨_, vals, hw⟩ := iadd_view_ok (t := .arr r0) (r := r0) (idx := List.range (w.heap.objs r0).data.length)
        (shp := (w.heap.objs r0).shape) rfl hi
      subst hw
      exact ⟨rfl, rfl, rfl, fun r' h => by simp [h]⟩
    · rename_i h' v hi
      have := (iadd_view_ok (t := .arr r0) (r := r0) (idx := List.range (w.heap.objs r0).data.length)
        (shp := (w.heap.objs r0).shape) rfl hi).1
      cases this

/-- the caller changing an array afterwards (`v += k`) changes exactly that object: whatever a signal holds in a
    different object (in particular the fresh copy made by `add_sensitivity`) stays as it is -/
theorem mutate_only_target (w : World) (k : Nat) (c : Int) :
    let w' := (step w (.mutate (.ext k) c)).1
    w'.sigs = w.sigs ∧ w'.exts = w.exts ∧ (∀ r', r' ≠ w.exts.getD k 0 → w'.heap.objs r' = w.heap.objs r') := by
  refine ⟨rfl, rfl, fun r' h => ?_⟩
  simp only [step, evalArg, PVal.asView]
  apply write_objs_ne
  simpa [List.getD_eq_getElem?_getD] using h

/-! ## slices touch only their own entries — any nesting depth

`p[sp]` with `p = sig[s₁][s₂]…[sₖ]` (k ≥ 0 view slices) and `sp` of any kind (basic slice, tuple of slices on an n-d array,
integer array, mixed tuple of slices / integers / one integer array at any axis — view path and copy-and-write-back path).
`T` is the COMPOSED index list of the ROOT array (`compIdx`), the hypothesis `NSel` only records that the root signal holds
a whole array and that every level of the chain is a valid index selecting at least one axis (otherwise numpy hands out a
scalar, not a slice).

Outside these statements (documented, not claimed): chains in which an INNER index is an integer array — numpy then hands the
outer slice a COPY, so writes through it never reach the root (the property's quantifier has "nested basic slices" only). -/

/-- every sensitivity operation through the slice keeps all holdings and changes, among the existing heap objects, at most
    the entries `T` of the ROOT sensitivity `r` -/
theorem slice_touches_only_idx (w : World) (r : Nat) (p : SigRef) (sp : SliceSpec) (T shp' : List Nat)
    (hs : NSel .sens w r p sp T shp') (hr : r < w.heap.next) (v : PVal) :
    Step w.heap.next r T w (addSlice w p sp v).1 ∧
    Step w.heap.next r T w (setSens w (.slice p sp) v).1 ∧
    Step w.heap.next r T w (resetSlice w p sp).1 :=
  ⟨addSlice_n w r p sp v T shp' hs hr (Nat.le_refl _),
   setSens_slice_n w r p sp v T shp' hs,
   resetSlice_n w r p sp T shp' hs hr (Nat.le_refl _)⟩

/-- a doubly nested slice `s[2:8][1::2]` of a 10-vector: the composed positions are 3, 5, 7 -/
example : NSel .sens ⟨⟨fun _ => ⟨false, [10], List.replicate 10 0⟩, 1⟩, fun _ => ⟨.arr 0, .arr 0, false⟩, 1, []⟩ 0
    (.slice (.base 0) (.basic ⟨some 2, some 8, none⟩)) (.basic ⟨some 1, none, some 2⟩) [3, 5, 7] [3] :=
  ⟨rfl, by decide⟩

/-- depth 3 with an integer array as LAST index (copy path): `s[::-1][1:9][[0, -1]]` → positions 8 and 1 -/
example : NSel .sens ⟨⟨fun _ => ⟨false, [10], List.replicate 10 0⟩, 1⟩, fun _ => ⟨.arr 0, .arr 0, false⟩, 1, []⟩ 0
    (.slice (.slice (.base 0) (.basic ⟨none, none, some (-1)⟩)) (.basic ⟨some 1, some 9, none⟩)) (.intArr [0, -1]) [8, 1] [2] :=
  ⟨rfl, by decide⟩

/-- nested tuple slices of a 3×4 array: `s[1:, :][:, 1:3]` → positions 5, 6, 9, 10 -/
example : NSel .state ⟨⟨fun _ => ⟨false, [3, 4], List.replicate 12 0⟩, 1⟩, fun _ => ⟨.arr 0, .none, false⟩, 1, []⟩ 0
    (.slice (.base 0) (.tuple [⟨some 1, none, none⟩, ⟨none, none, none⟩])) (.tuple [⟨none, none, none⟩, ⟨some 1, some 3, none⟩])
    [5, 6, 9, 10] [2, 2] :=
  ⟨rfl, by decide⟩

/-- the state setter of a slice changes at most the entries `T` of the root state `r` -/
theorem slice_state_touches_only_idx (w : World) (r : Nat) (p : SigRef) (sp : SliceSpec) (T shp' : List Nat)
    (hs : NSel .state w r p sp T shp') (v : PVal) :
    Step w.heap.next r T w (setState w (.slice p sp) v).1 :=
  writeField_n .state w r p sp v T shp' hs

/-- the getters READ exactly the composed positions: `slice.state` / `slice.sensitivity` is an array-like of the slice's shape
    whose content is the gather `root[T]` (a view, or for an integer-array index a fresh copy); no existing object changes -/
theorem slice_get_reads_idx (f : Fld) (w : World) (r : Nat) (p : SigRef) (sp : SliceSpec) (T shp' : List Nat)
    (hs : NSel f w r p sp T shp') :
    ∃ w1 v, getField f w (.slice p sp) = .ok (w1, v) ∧
      v.src w1.heap = some (.arr (w.heap.objs r).cplx shp' (gatherF (absArr (w.heap.objs r).data) T)) ∧
      w1.sigs = w.sigs ∧ (∀ r', r' < w.heap.next → w1.heap.objs r' = w.heap.objs r') := by
  rw [getField_slice_val hs]
  by_cases hview : sp.isView = true
  · rw [if_pos hview]
    exact ⟨_, _, rfl, rfl, rfl, fun _ _ => rfl⟩
  · rw [if_neg hview]
    refine ⟨_, _, rfl, ?_, rfl, fun r' hr' => alloc_objs_old _ _ _ (Nat.ne_of_lt hr')⟩
    simp [PVal.src]
    rfl

/-- … and the setters WRITE exactly the converted right-hand side there: `slice.state = v` / `slice.sensitivity = v` is the scatter
    `root[T] := prepSrc v` (numpy's conversion / broadcasting of `v` to the slice shape; `None` as a sensitivity stores 0);
    when numpy raises, the root array is as it was -/
theorem slice_set_writes_idx (w : World) (r : Nat) (p : SigRef) (sp : SliceSpec) (T shp' : List Nat) (v : PVal) :
    (NSel .state w r p sp T shp' →
      ((setState w (.slice p sp) v).1.heap.objs r).data =
        match prepSrc (w.heap.objs r).cplx shp' (v.src w.heap) with
        | .ok vals => writeList (w.heap.objs r).data T vals
        | .error _ => (w.heap.objs r).data) ∧
    (NSel .sens w r p sp T shp' →
      ((setSens w (.slice p sp) v).1.heap.objs r).data =
        match prepSrc (w.heap.objs r).cplx shp' ((noneToZero v).src w.heap) with
        | .ok vals => writeList (w.heap.objs r).data T vals
        | .error _ => (w.heap.objs r).data) := by
  constructor
  · intro hs
    simp only [setState]
    cases hp : prepSrc (w.heap.objs r).cplx shp' (v.src w.heap) with
    | error e => rw [writeField_err hs hp]
    | ok vals => rw [writeField_ok hs hp]; simp
  · intro hs
    rw [setSens_slice_eq v hs]
    cases hp : prepSrc (w.heap.objs r).cplx shp' ((noneToZero v).src w.heap) with
    | error e => rw [writeField_err hs hp]
    | ok vals => rw [writeField_ok hs hp]; simp

/-- spelled out: after `p[sp].add_sensitivity(v)` the root still holds the same sensitivity object, its entries outside
    the composed positions are what they were, its shape/dtype are kept, and every other existing array (states, other
    signals' sensitivities, the caller's arrays, `v` itself) is unchanged -/
theorem slice_add_only_idx (w : World) (r : Nat) (p : SigRef) (sp : SliceSpec) (T shp' : List Nat)
    (hs : NSel .sens w r p sp T shp') (hr : r < w.heap.next) (v : PVal) :
    let w' := (addSlice w p sp v).1
    w'.sigs = w.sigs ∧
    (∀ j, j ∉ T → (w'.heap.objs r).data.getD j 0 = (w.heap.objs r).data.getD j 0) ∧
    (w'.heap.objs r).shape = (w.heap.objs r).shape ∧ (w'.heap.objs r).cplx = (w.heap.objs r).cplx ∧
    (∀ r', r' < w.heap.next → r' ≠ r → w'.heap.objs r' = w.heap.objs r') := by
  obtain ⟨h1, _, _, _, h2, h3, _, h5, h6⟩ := (slice_touches_only_idx w r p sp T shp' hs hr v).1
  exact ⟨h1, h3, h5, h6, h2⟩

/-- … and the entries at the composed positions receive exactly the accumulated values: gather, `+=` (numpy's casting and
    broadcasting of the right-hand side: `addSrc`), scatter — the same for the view path and the copy-and-write-back path.
    `d` is the content of the argument; `hwf`: the root array is well formed (as many entries as its shape says).
    A raising `+=` leaves the root as it was. -/
theorem slice_add_accumulates_idx (w : World) (r : Nat) (p : SigRef) (sp : SliceSpec) (T shp' : List Nat)
    (hs : NSel .sens w r p sp T shp') (hwf : (w.heap.objs r).data.length = prod (w.heap.objs r).shape)
    (hr : r < w.heap.next) (ds : PVal) (d : Src)
    (hd : ds.src w.heap = some d) (hb : ∀ b, ds.buf = some b → b < w.heap.next) :
    ((addSlice w p sp ds).1.heap.objs r).data =
      match addSrc (w.heap.objs r).cplx shp' (gatherF (absArr (w.heap.objs r).data) T) d with
      | .ok vals => writeList (w.heap.objs r).data T vals
      | .error _ => (w.heap.objs r).data :=
  addSlice_val hs (hs.ok hwf).1 hr hd hb

/-- numpy's contract for index sets holds for EVERY index the model supports, at every depth: the composed positions lie inside
    the root array and there are as many as the slice shape says (proved from `slice.indices` arithmetic, C-order products and the
    bounds checks of integer arrays) -/
theorem slice_idx_inside (f : Fld) (w : World) (r : Nat) (p : SigRef) (sp : SliceSpec) (T shp' : List Nat)
    (hs : NSel f w r p sp T shp') (hwf : (w.heap.objs r).data.length = prod (w.heap.objs r).shape) :
    T.length = prod shp' ∧ ∀ t, t ∈ T → t < (w.heap.objs r).data.length :=
  hs.ok hwf

example : (List.replicate 10 (0 : GI)).length = prod [10] := by decide

/-- resetting a slice clears only its own entries: the root keeps its sensitivity object, entries outside `T` are
    unchanged and every other existing array is unchanged (any depth, any index kind) -/
theorem slice_reset_only_idx (w : World) (r : Nat) (p : SigRef) (sp : SliceSpec) (T shp' : List Nat)
    (hs : NSel .sens w r p sp T shp') (hr : r < w.heap.next) :
    let w' := (resetSlice w p sp).1
    w'.sigs = w.sigs ∧
    (∀ j, j ∉ T → (w'.heap.objs r).data.getD j 0 = (w.heap.objs r).data.getD j 0) ∧
    (∀ r', r' < w.heap.next → r' ≠ r → w'.heap.objs r' = w.heap.objs r') := by
  obtain ⟨h1, _, _, _, h2, h3, _, _, _⟩ := (slice_touches_only_idx w r p sp T shp' hs hr .none).2.2
  exact ⟨h1, h3, h2⟩

/-- … and the entries inside are 0 afterwards — every index kind (views AND integer-array copies), any depth, repeats allowed -/
theorem slice_reset_zeroes_idx (w : World) (r : Nat) (p : SigRef) (sp : SliceSpec) (T shp' : List Nat)
    (hs : NSel .sens w r p sp T shp') (hr : r < w.heap.next)
    (hwf : (w.heap.objs r).data.length = prod (w.heap.objs r).shape) :
    (resetSlice w p sp).2 = none ∧
    (∀ j, j ∈ T → (((resetSlice w p sp).1).heap.objs r).data.getD j 0 = 0) := by
  obtain ⟨hlen, hinb⟩ := hs.ok hwf
  obtain ⟨h1, h2⟩ := resetSlice_val hs hr
  refine ⟨h1, fun j hj => ?_⟩
  rw [h2]
  exact (AllZero.replicate (prod shp')) _
    (writeList_getD_mem _ T _ j hj (by simp [hlen]) (hinb j hj))

/-- adding through a slice of ANY depth when the root has NO sensitivity yet: the root receives a FRESH array `r0` (allocated
    during the call) of the state's shape and dtype whose entries outside the composed positions are 0; the state object and
    every other existing array are untouched and no other holding changes.
    (`hnz`: the state has rank ≥ 1 — `state * 0` of a rank-0 array is a numpy scalar, on which no slice exists.) -/
theorem slice_add_creates_zero_sens (w : World) (i rs : Nat) (p : SigRef) (sp : SliceSpec) (T shp' : List Nat) (v : PVal)
    (hv : v ≠ .none) (hroot : p.root = i) (hse : (w.sigs i).sens = .none) (hst : (w.sigs i).state = .arr rs)
    (hrs : rs < w.heap.next) (hs : NSel .state w rs p sp T shp') (hnz : (w.heap.objs rs).shape ≠ []) :
    let w' := (addSlice w p sp v).1
    ∃ r0, w.heap.next ≤ r0 ∧
      (w'.sigs i).sens = .arr r0 ∧ (w'.sigs i).state = .arr rs ∧ (∀ j, j ≠ i → w'.sigs j = w.sigs j) ∧
      (w'.heap.objs r0).shape = (w.heap.objs rs).shape ∧
      (w'.heap.objs r0).cplx = (w.heap.objs rs).cplx ∧
      (w'.heap.objs r0).data.length = (w.heap.objs rs).data.length ∧
      (∀ j, j ∉ T → (w'.heap.objs r0).data.getD j 0 = 0) ∧
      (∀ r', r' < w.heap.next → w'.heap.objs r' = w.heap.objs r') := by
  obtain ⟨r0, Z⟩ := addSlice_init_zero w i rs p sp T shp' v hv hroot hse hst hrs hs hnz
  exact ⟨r0, Z.fresh, Z.sens, Z.state, Z.others, Z.shape, Z.cplx, Z.len, Z.zero, Z.old⟩

/-- non-vacuity / end-to-end instance on the executable model: `s = Signal(state=[1..10])`; the doubly nested slice
    `s[2:8][1::2]` (root positions 3, 5, 7) receives `[10, 20, 30]` while `s` has no sensitivity: a fresh zero array is
    created for the ROOT (ref 3: the zero array of the intermediate slice is allocated before it) and only the composed positions are filled;
    a second add through the depth-3 integer-array slice `s[::-1][1:9][[0, -1]]` (root positions 8, 1; copy + write-back)
    accumulates; resetting `s[2:8][1::2]` zeroes exactly 3, 5, 7 -/
example :
    let s1 : SigRef := .slice (.slice (.base 0) (.basic ⟨some 2, some 8, none⟩)) (.basic ⟨some 1, none, some 2⟩)
    let s2 : SigRef := .slice (.slice (.slice (.base 0) (.basic ⟨none, none, some (-1)⟩)) (.basic ⟨some 1, some 9, none⟩)) (.intArr [0, -1])
    let ops : List Op := [
      .newSignal (.newArr false [10] ((List.range 10).map fun (k : Nat) => ⟨(k : Int) + 1, 0⟩)) .none,
      .add s1 (.newArr false [3] [⟨10, 0⟩, ⟨20, 0⟩, ⟨30, 0⟩]),
      .add s2 (.sc false ⟨7, 0⟩)]
    let w := run World.empty ops
    let w' := run w [.reset s1 none]
    (w.sigs 0).sens = .arr 3 ∧
    (w.heap.objs 3).data = [⟨0, 0⟩, ⟨7, 0⟩, ⟨0, 0⟩, ⟨10, 0⟩, ⟨0, 0⟩, ⟨20, 0⟩, ⟨0, 0⟩, ⟨30, 0⟩, ⟨7, 0⟩, ⟨0, 0⟩] ∧
    (w'.heap.objs 3).data = [⟨0, 0⟩, ⟨7, 0⟩, ⟨0, 0⟩, ⟨0, 0⟩, ⟨0, 0⟩, ⟨0, 0⟩, ⟨0, 0⟩, ⟨0, 0⟩, ⟨7, 0⟩, ⟨0, 0⟩] ∧
    (w'.heap.objs 0).data = (List.range 10).map fun (k : Nat) => ⟨(k : Int) + 1, 0⟩ := by
  decide

/-- the depth-1 example of the first version: `s[-1::-2]` (positions 3, 1) receives `[10, 20]`, the caller then changes its
    array, a second signal receives the same object: the base sensitivity is `[0, 20, 0, 10]` in a fresh object (ref 2) and
    the second signal holds its own copy (ref 3) of the CHANGED caller array -/
example :
    let ops : List Op := [
      .newSignal (.newArr false [4] [⟨1, 0⟩, ⟨2, 0⟩, ⟨3, 0⟩, ⟨4, 0⟩]) .none,
      .newSignal .none .none,
      .add (.slice (.base 0) (.basic ⟨some (-1), none, some (-2)⟩)) (.newArr false [2] [⟨10, 0⟩, ⟨20, 0⟩]),
      .mutate (.ext 1) 5,
      .add (.base 1) (.ext 1)]
    let w := run World.empty ops
    (w.sigs 0).sens = .arr 2 ∧ (w.heap.objs 2).data = [⟨0, 0⟩, ⟨20, 0⟩, ⟨0, 0⟩, ⟨10, 0⟩] ∧
    (w.sigs 1).sens = .arr 3 ∧ (w.heap.objs 3).data = [⟨15, 0⟩, ⟨25, 0⟩] ∧ (w.heap.objs 1).data = [⟨15, 0⟩, ⟨25, 0⟩] := by
  decide

/-- rank-0 ndarrays are MUTABLE heap objects (unlike numpy scalars and Python numbers): `add_no_alias` applies to them.
    `s0.add_sensitivity(v)` with `v = np.array(2)` (ref 0), same object to `s1`, the caller then does `v += 5`, adds it to
    `s0` again and resets `s1` with kept allocation: `s0` holds its own object (ref 1) with 2 + 7, `s1` its own (ref 2)
    zeroed, and the caller's array is 7 (neither stored nor zeroed) -/
example :
    let ops : List Op := [
      .newSignal .none .none, .newSignal .none .none,
      .add (.base 0) (.newArr false [] [⟨2, 0⟩]), .add (.base 1) (.ext 0),
      .mutate (.ext 0) 5, .add (.base 0) (.ext 0), .reset (.base 1) (some true)]
    let w := run World.empty ops
    (w.sigs 0).sens = .arr 1 ∧ (w.heap.objs 1).data = [⟨9, 0⟩] ∧ (w.sigs 1).sens = .arr 2 ∧ (w.heap.objs 2).data = [⟨0, 0⟩] ∧
    (w.heap.objs 0).data = [⟨7, 0⟩] ∧ (w.heap.objs 1).shape = [] := by
  decide

/-- nested basic slices are clipped at EVERY level: `x[2:5][1:4]` of 10 entries is entries 3, 4 (not 3, 4, 5) and
    `x[3:6][5:9]` is empty -/
example :
    let w : World := ⟨⟨fun _ => ⟨false, [10], List.replicate 10 0⟩, 1⟩, fun _ => ⟨.arr 0, .none, false⟩, 1, []⟩
    (getField .state w (.slice (.slice (.base 0) (.basic ⟨some 2, some 5, none⟩)) (.basic ⟨some 1, some 4, none⟩))).toOption.map (·.2)
      = some (.view 0 [3, 4] [2]) ∧
    (getField .state w (.slice (.slice (.base 0) (.basic ⟨some 3, some 6, none⟩)) (.basic ⟨some 5, some 9, none⟩))).toOption.map (·.2)
      = some (.view 0 [] [0]) := by
  decide

/-! ## refinement to the gather / scatter specification

Specification (`Lemmas/SignalRefine.lean`): the abstract state `AState` has every root array as a FUNCTION index → value and
nothing else; an operation `SOp` through a slice `p[sp]` of any depth is `specStep`: the root array `f` of the slice becomes
`scatterF f T vals` where `T = compIdx …` is the composed index list and `vals = specVals …` is
  set:   the right-hand side converted / broadcast to the slice shape (`prepSrc`, numpy's assignment semantics),
  add:   `gatherF f T` plus the broadcast right-hand side (`addSrc`),
  reset: zeros,
or `f` itself when numpy raises (casting, broadcasting); every other root array is untouched. No views, no copies, no
write-back and no nesting exist in the specification.

`signal_refines_spec`: for EVERY sequence of such operations (state / sensitivity assignment, add_sensitivity, reset through
slices of any depth and index kind, on any number of signals, with literal arguments; in any interleaving, including signals
that share one array), by induction over the sequence, the abstraction of the heap of the model after the run equals the
run of the specification, and holdings, dtypes and shapes are the initial ones.

Scope (`InScope`): the root signal holds an array that exists initially and is well formed (as many entries as its shape says),
and the chain of slices is a valid index at every level (`compIdx`). numpy's contract for index sets is PROVED for the model
(`slice_idx_inside`), not assumed.
Not covered by this theorem (covered by the theorems above or by the correspondence): operations on the plain signals
themselves inside the sequence (they re-bind holdings: `reset_clears`, `add_no_alias`, `add_in_place`), the creation of an
absent root sensitivity (`slice_add_creates_zero_sens`, after which the sequence is in scope), and arguments that alias a
signal's own array (their frame is `slice_touches_only_idx`). -/

theorem signal_refines_spec (w0 : World) (ops : List SOp) (hsc : ∀ o, o ∈ ops → InScope w0 o) :
    let w := run w0 (ops.map SOp.toOp)
    (∀ r, r < w0.heap.next → absState w.heap r = specRun w0 (absState w0.heap) ops r) ∧
    w.sigs = w0.sigs ∧
    (∀ r, r < w0.heap.next → (w.heap.objs r).shape = (w0.heap.objs r).shape ∧ (w.heap.objs r).cplx = (w0.heap.objs r).cplx ∧
      (w.heap.objs r).data.length = (w0.heap.objs r).data.length) := by
  -- generalised over the current world `w` and ANY abstract state `A` that agrees with it on the initial objects
  suffices h : ∀ (ops : List SOp) (w : World) (A : AState), (∀ o, o ∈ ops → InScope w0 o) → Inv w0 w →
      (∀ r, r < w0.heap.next → absState w.heap r = A r) →
      Inv w0 (run w (ops.map SOp.toOp)) ∧
      ∀ r, r < w0.heap.next → absState (run w (ops.map SOp.toOp)).heap r = specRun w0 A ops r by
    obtain ⟨hi, ha⟩ := h ops w0 (absState w0.heap) hsc (Inv.refl w0) (fun _ _ => rfl)
    exact ⟨ha, hi.sigs, fun r hr => ⟨hi.shape r hr, hi.cplx r hr, hi.len r hr⟩⟩
  intro ops
  induction ops with
  | nil => intro w A _ hi hA; exact ⟨hi, hA⟩
  | cons o os ih =>
    intro w A hsc hi hA
    obtain ⟨hi', ha'⟩ := step_refines w0 w o hi (hsc o (by simp))
    refine ih (step w o.toOp).1 (specStep w0 A o) (fun o' ho' => hsc o' (by simp [ho'])) hi' ?_
    intro r hr
    rw [ha' r hr]
    -- the specification step only looks at the initial objects
    obtain ⟨r1, tc, T, shp', htgt, hr1, _⟩ := hsc o (by simp)
    simp only [specStep, htgt]
    by_cases hrr : r = r1
    · subst hrr
      simp only [if_true, hA r hr1]
    · simp only [hrr, if_false, hA r hr]

/-- non-vacuity: three operations in scope on a world whose signal 0 holds one 10-vector as state AND sensitivity (aliasing):
    set through the doubly nested state slice, add through the depth-3 integer-array slice, reset of the nested slice -/
example :
    let w0 : World := ⟨⟨fun _ => ⟨false, [10], List.replicate 10 0⟩, 1⟩, fun _ => ⟨.arr 0, .arr 0, false⟩, 1, []⟩
    let s1p : SigRef := .slice (.base 0) (.basic ⟨some 2, some 8, none⟩)
    let s2p : SigRef := .slice (.slice (.base 0) (.basic ⟨none, none, some (-1)⟩)) (.basic ⟨some 1, some 9, none⟩)
    ∀ o, o ∈ ([⟨.setState, s1p, .basic ⟨some 1, none, some 2⟩, .arr false [3] [⟨1, 0⟩, ⟨2, 0⟩, ⟨3, 0⟩], none⟩,
               ⟨.add, s2p, .intArr [0, -1], .sc false ⟨7, 0⟩, none⟩,
               ⟨.reset, s1p, .basic ⟨some 1, none, some 2⟩, .none, some true⟩] : List SOp) → InScope w0 o := by
  intro w0 s1p s2p o ho
  simp only [List.mem_cons, List.not_mem_nil, or_false] at ho
  rcases ho with rfl | rfl | rfl
  · exact ⟨0, false, [3, 5, 7], [3], rfl, by decide, by decide⟩
  · exact ⟨0, false, [8, 1], [2], rfl, by decide, by decide⟩
  · exact ⟨0, false, [3, 5, 7], [3], rfl, by decide, by decide⟩

/-- … and what the SPECIFICATION computes for them (pure functions, no heap): entries 3, 5, 7 := 1, 2, 3; entries 8, 1 += 7;
    entries 3, 5, 7 := 0 -/
example :
    let w0 : World := ⟨⟨fun _ => ⟨false, [10], List.replicate 10 0⟩, 1⟩, fun _ => ⟨.arr 0, .arr 0, false⟩, 1, []⟩
    let s1p : SigRef := .slice (.base 0) (.basic ⟨some 2, some 8, none⟩)
    let s2p : SigRef := .slice (.slice (.base 0) (.basic ⟨none, none, some (-1)⟩)) (.basic ⟨some 1, some 9, none⟩)
    let o1 : SOp := ⟨.setState, s1p, .basic ⟨some 1, none, some 2⟩, .arr false [3] [⟨1, 0⟩, ⟨2, 0⟩, ⟨3, 0⟩], none⟩
    let o2 : SOp := ⟨.add, s2p, .intArr [0, -1], .sc false ⟨7, 0⟩, none⟩
    let o3 : SOp := ⟨.reset, s1p, .basic ⟨some 1, none, some 2⟩, .none, some true⟩
    (List.range 10).map (specRun w0 (absState w0.heap) [o1, o2] 0)
      = [⟨0, 0⟩, ⟨7, 0⟩, ⟨0, 0⟩, ⟨1, 0⟩, ⟨0, 0⟩, ⟨2, 0⟩, ⟨0, 0⟩, ⟨3, 0⟩, ⟨7, 0⟩, ⟨0, 0⟩] ∧
    (List.range 10).map (specRun w0 (absState w0.heap) [o1, o2, o3] 0)
      = [⟨0, 0⟩, ⟨7, 0⟩, ⟨0, 0⟩, ⟨0, 0⟩, ⟨0, 0⟩, ⟨0, 0⟩, ⟨0, 0⟩, ⟨0, 0⟩, ⟨7, 0⟩, ⟨0, 0⟩] := by
  decide

/-! ## histories

All statements above hold in an ARBITRARY world, in particular in `run w₀ ops` for every operation sequence `ops`;
`run_append` makes the instantiation explicit. -/

theorem run_append (w : World) (a b : List Op) : run w (a ++ b) = run (run w a) b := by
  induction a generalizing w with
  | nil => rfl
  | cons op ops ih => exact ih _

/-- after ANY operation sequence, `reset()` of a signal that does not keep its allocation leaves it without sensitivity -/
theorem reset_clears_after_any_history (w : World) (ops : List Op) (i : Nat)
    (hk : ((run w ops).sigs i).keepAlloc = false) :
    ((run w (ops ++ [.reset (.base i) none])).sigs i).sens = .none := by
  rw [run_append]
  exact (reset_clears (run w ops) i none (by simpa using hk)).2.1

/-- after ANY operation sequence, `reset(True)` of a signal holding an array keeps that very object, zeroed -/
theorem reset_keepalloc_after_any_history (w : World) (ops : List Op) (i r : Nat)
    (hs : ((run w ops).sigs i).sens = .arr r) :
    let w' := run w (ops ++ [.reset (.base i) (some true)])
    (w'.sigs i).sens = .arr r ∧ ∀ j, j < ((run w ops).heap.objs r).data.length → (w'.heap.objs r).data.getD j 0 = 0 := by
  intro w'
  have e : w' = (resetPlain (run w ops) i (some true)).1 := by
    simp only [w', run_append]; rfl
  obtain ⟨_, h2, h3, _⟩ := reset_keepalloc_zero_same_object (run w ops) i r (some true) hs rfl
  rw [e]
  exact ⟨by rw [h2]; exact hs, h3⟩

end PymotoVerif.C18
