/-
C18 — Signals and slices alias state, isolate accumulations and reset cleanly.
Property theorems ONLY (helper lemmas live in `Lemmas/Signal.lean`).

Model: `Core/Signal.lean` (literal transcription of `Signal` / `SignalSlice` on an explicit heap of array objects).
The worlds `w` below are ARBITRARY (any heap, any holdings, hence any history of operations that led there); the
statements about operation sequences are by induction over the operation list.

`Frame N r T h h'` (Lemmas): from heap `h` to `h'` only new objects were allocated, no object below `N` other than `r`
changed, and of `r` at most the entries `T` changed (identity, dtype, shape, length kept).
`Step N r T w w'`: holdings of all signals and the caller's arrays are the same and `Frame N r T w.heap w'.heap`.
-/
import PymotoVerif.Lemmas.Signal

namespace PymotoVerif.C18
open PymotoVerif PymotoVerif.Signal

/-! ## reset -/

/-- `reset()` without kept allocation clears the sensitivity (and nothing else; no heap object is touched) -/
theorem reset_clears (w : World) (i : Nat) (ka : Option Bool)
    (hk : ka.getD (w.sigs i).keepAlloc = false) :
    (resetPlain w i ka).2 = none ∧ ((resetPlain w i ka).1.sigs i).sens = .none ∧
    ((resetPlain w i ka).1.sigs i).state = (w.sigs i).state ∧
    (∀ j, j ≠ i → (resetPlain w i ka).1.sigs j = w.sigs j) ∧ (resetPlain w i ka).1.heap = w.heap := by
  cases hs : (w.sigs i).sens <;> simp [resetPlain, hs, hk, World.setSens] <;> intro j hj <;> simp [hj]

example : ((resetPlain ⟨⟨fun _ => ⟨false, [2], [⟨3, 0⟩, ⟨4, 0⟩]⟩, 1⟩, fun _ => ⟨.none, .arr 0, false⟩, 1, []⟩ 0 none).1.sigs 0).sens
    = .none := by decide

/-- `reset(keep_alloc=True)` (or a signal constructed with a sensitivity): the SAME object is kept and zeroed in place;
    every other heap object is untouched -/
theorem reset_keepalloc_zero_same_object (w : World) (i r : Nat) (ka : Option Bool)
    (hs : (w.sigs i).sens = .arr r) (hk : ka.getD (w.sigs i).keepAlloc = true) :
    let w' := (resetPlain w i ka).1
    (resetPlain w i ka).2 = none ∧ w'.sigs = w.sigs ∧
    (∀ j, j < (w.heap.objs r).data.length → (w'.heap.objs r).data.getD j 0 = 0) ∧
    (w'.heap.objs r).data.length = (w.heap.objs r).data.length ∧
    (w'.heap.objs r).shape = (w.heap.objs r).shape ∧ (w'.heap.objs r).cplx = (w.heap.objs r).cplx ∧
    (∀ r', r' ≠ r → w'.heap.objs r' = w.heap.objs r') ∧ w'.heap.next = w.heap.next := by
  have e : resetPlain w i ka = (⟨w.heap.write r (List.range (w.heap.objs r).data.length)
      (List.replicate (List.range (w.heap.objs r).data.length).length 0), w.sigs, w.nsig, w.exts⟩, none) := by
    simp [resetPlain, hs, hk, PVal.asView]
  rw [e]
  refine ⟨rfl, rfl, ?_, by simp, by simp, by simp, fun r' h => by simp [h], rfl⟩
  intro j hj
  rw [write_objs_self]
  have := writeList_getD_of_nodup (w.heap.objs r).data (List.range (w.heap.objs r).data.length)
    (List.replicate (List.range (w.heap.objs r).data.length).length 0) List.nodup_range j (by simpa using hj) (by simpa using hj)
    (by rw [getD_range _ _ hj]; exact hj)
  rw [getD_range _ _ hj] at this
  simp only [this]
  simp [List.getD_eq_getElem?_getD, hj]

example : ((resetPlain ⟨⟨fun _ => ⟨false, [2], [⟨3, 0⟩, ⟨4, 0⟩]⟩, 1⟩, fun _ => ⟨.none, .arr 0, false⟩, 1, []⟩ 0 (some true)).1.heap.objs 0).data
    = [0, 0] := by decide

/-- a Python-scalar sensitivity with kept allocation becomes the scalar 0 of the same type (`sens *= 0`) -/
theorem reset_keepalloc_scalar (w : World) (i : Nat) (c : Bool) (x : GI) (ka : Option Bool)
    (hs : (w.sigs i).sens = .sc c x) (hk : ka.getD (w.sigs i).keepAlloc = true) :
    ((resetPlain w i ka).1.sigs i).sens = .sc c 0 ∧ (resetPlain w i ka).1.heap = w.heap := by
  simp [resetPlain, hs, hk, PVal.asView, World.setSens]

/-! ## add_sensitivity never aliases -/

/-- FIRST `add_sensitivity(v)` with an array `v` (whole array or view into buffer `r`): the signal afterwards holds a
    FRESH object (`w.heap.next`), which is therefore not `v`, not held by any other signal (state or sensitivity) and
    not one of the caller's arrays; it carries a copy of `v`'s entries; no existing object is changed. -/
theorem add_no_alias (w : World) (i r : Nat) (idx shp : List Nat) (v : PVal) (hwf : w.WF)
    (hs : (w.sigs i).sens = .none) (hv : v.asView w.heap = some (r, idx, shp)) (hr : r < w.heap.next) :
    let w' := (addPlain w i v).1
    (addPlain w i v).2 = none ∧ (w'.sigs i).sens = .arr w.heap.next ∧ (w'.sigs i).state = (w.sigs i).state ∧
    (∀ j, j ≠ i → w'.sigs j = w.sigs j) ∧
    r ≠ w.heap.next ∧
    (∀ j f, (j, f) ≠ (i, Fld.sens) → ((w'.sigs j).get f).buf ≠ some w.heap.next) ∧
    w.heap.next ∉ w'.exts ∧
    (w'.heap.objs w.heap.next) = ⟨(w.heap.objs r).cplx, shp, w.heap.read r idx⟩ ∧
    (∀ r', r' < w.heap.next → w'.heap.objs r' = w.heap.objs r') := by
  have hne : v ≠ .none := by rintro rfl; simp [PVal.asView] at hv
  have e : addPlain w i v = (({ w with heap := (w.heap.alloc ⟨(w.heap.objs r).cplx, shp, w.heap.read r idx⟩).1 } : World).setSens i
      (.arr w.heap.next), none) := by
    cases v <;> simp_all [addPlain, deepcopy]
  rw [e]
  refine ⟨rfl, by simp [World.setSens], by simp [World.setSens], fun j hj => by simp [World.setSens, hj],
    Nat.ne_of_lt hr, ?_, ?_, by simp [World.setSens], ?_⟩
  · intro j f hjf hb
    by_cases hj : j = i
    · subst hj
      cases f with
      | sens => exact hjf rfl
      | state =>
        have := hwf.1 j .state _ (by simpa [World.setSens, Sig.get] using hb)
        omega
    · have := hwf.1 j f _ (by simpa [World.setSens, hj] using hb)
      omega
  · intro hm
    have := hwf.2 _ (by simpa [World.setSens] using hm)
    omega
  · intro r' hr'
    simp [World.setSens, Nat.ne_of_lt hr']

example : (⟨⟨fun _ => ⟨false, [2], [⟨3, 0⟩, ⟨4, 0⟩]⟩, 1⟩, fun _ => ⟨.none, .none, false⟩, 1, [0]⟩ : World).WF :=
  ⟨fun j f b h => by cases f <;> simp [Sig.get, PVal.buf] at h, fun e h => by simp at h; subst h; decide⟩

/-- LATER `add_sensitivity` on a signal that already holds an array: nothing is re-bound (the signal keeps its OWN
    object, all other holdings are the same) and the only heap object that can change is that own object — so the value
    passed in is neither stored nor (unless it is that very object) modified. -/
theorem add_in_place (w : World) (i r0 : Nat) (ds : PVal) (hs : (w.sigs i).sens = .arr r0) :
    let w' := (addPlain w i ds).1
    w'.sigs = w.sigs ∧ w'.exts = w.exts ∧ w'.heap.next = w.heap.next ∧
    (∀ r', r' ≠ r0 → w'.heap.objs r' = w.heap.objs r') := by
  unfold addPlain
  cases ds with
  | none => exact ⟨rfl, rfl, rfl, fun _ _ => rfl⟩
  | _ =>
    simp only [hs]
    split
    · exact ⟨rfl, rfl, rfl, fun _ _ => rfl⟩
    · rename_i h' hi
      obtain ⟨_, vals, hw⟩ := iadd_view_ok (t := .arr r0) (r := r0) (idx := List.range (w.heap.objs r0).data.length)
        (shp := (w.heap.objs r0).shape) rfl hi
      subst hw
      exact ⟨rfl, rfl, rfl, fun r' h => by simp [h]⟩
    · rename_i h' v hi
      have := (iadd_view_ok (t := .arr r0) (r := r0) (idx := List.range (w.heap.objs r0).data.length)
        (shp := (w.heap.objs r0).shape) rfl hi).1
      cases this

/-- the caller changing an array afterwards (`v += k`) changes exactly that object: whatever a signal holds in a
    different object (in particular the fresh copy made by `add_sensitivity`) stays as it is -/
theorem mutate_only_target (w : World) (k : Nat) (c : Int) :
    let w' := (step w (.mutate (.ext k) c)).1
    w'.sigs = w.sigs ∧ w'.exts = w.exts ∧ (∀ r', r' ≠ w.exts.getD k 0 → w'.heap.objs r' = w.heap.objs r') := by
  refine ⟨rfl, rfl, fun r' h => ?_⟩
  simp only [step, evalArg, PVal.asView]
  apply write_objs_ne
  simpa [List.getD_eq_getElem?_getD] using h

/-! ## slices touch only their own entries

Proved for slices taken DIRECTLY of a base signal that holds a whole array (`sig[spec]`, any spec kind: basic slice, tuple
of slices on an n-d array, integer array, mixed tuple of slices / integers / one integer array at any axis — view path
and copy-and-write-back path), for every operation of `SignalSlice`.
`pos` is the index set the model computes for the spec (`selIdx`); `Sel` records `selIdx shape spec = ok (pos, shp')`, that the
selection keeps at least one axis (`shp' ≠ []`; otherwise numpy hands out a scalar) and that the positions are inside the buffer (numpy's contract for index sets, compared exhaustively by the `c18.sel` stream).

Full statement (not proved): the same for `SigRef`s of arbitrary nesting depth, `pos` being the composed index set.
Missing: the lemma that re-evaluating a nested getter after allocations returns the same view (induction over `SigRef`). -/

/-- every sensitivity operation through the slice keeps all holdings and changes, among the existing heap objects, at most
    the entries `pos` of the base sensitivity `r` -/
theorem slice_touches_only_idx_partial (w : World) (i r : Nat) (sp : SliceSpec) (pos shp' : List Nat)
    (hh : (w.sigs i).sens = .arr r) (hs : Sel w r sp pos shp') (hr : r < w.heap.next) (v : PVal) :
    Step w.heap.next r pos w (addSlice w (.base i) sp v).1 ∧
    Step w.heap.next r pos w (setSens w (.slice (.base i) sp) v).1 ∧
    Step w.heap.next r pos w (resetSlice w (.base i) sp).1 :=
  ⟨addSlice_base w i r sp v pos shp' hh hs hr (Nat.le_refl _),
   setSens_slice_base w i r sp v pos shp' hh hs,
   resetSlice_base w i r sp pos shp' hh hs hr (Nat.le_refl _)⟩

/-- the state setter of a slice changes at most the entries `pos` of the base state `r` -/
theorem slice_state_touches_only_idx_partial (w : World) (i r : Nat) (sp : SliceSpec) (pos shp' : List Nat)
    (hh : (w.sigs i).state = .arr r) (hs : Sel w r sp pos shp') (v : PVal) :
    Step w.heap.next r pos w (setState w (.slice (.base i) sp) v).1 :=
  writeField_base .state w i r sp v pos shp' hh hs

/-- spelled out: after `sig[spec].add_sensitivity(v)` the base still holds the same sensitivity object, its entries outside
    the slice are what they were, its shape/dtype are kept, and every other existing array (states, other signals'
    sensitivities, the caller's arrays, `v` itself) is unchanged -/
theorem slice_add_only_idx_partial (w : World) (i r : Nat) (sp : SliceSpec) (pos shp' : List Nat)
    (hh : (w.sigs i).sens = .arr r) (hs : Sel w r sp pos shp') (hr : r < w.heap.next) (v : PVal) :
    let w' := (addSlice w (.base i) sp v).1
    w'.sigs = w.sigs ∧
    (∀ j, j ∉ pos → (w'.heap.objs r).data.getD j 0 = (w.heap.objs r).data.getD j 0) ∧
    (w'.heap.objs r).shape = (w.heap.objs r).shape ∧ (w'.heap.objs r).cplx = (w.heap.objs r).cplx ∧
    (∀ r', r' < w.heap.next → r' ≠ r → w'.heap.objs r' = w.heap.objs r') := by
  obtain ⟨h1, _, _, _, h2, h3, _, h5, h6⟩ := (slice_touches_only_idx_partial w i r sp pos shp' hh hs hr v).1
  exact ⟨h1, h3, h5, h6, h2⟩

example : Sel ⟨⟨fun _ => ⟨false, [4], [⟨1, 0⟩, ⟨2, 0⟩, ⟨3, 0⟩, ⟨4, 0⟩]⟩, 1⟩, fun _ => ⟨.arr 0, .arr 0, false⟩, 1, []⟩ 0
    (.basic ⟨some (-1), none, some (-2)⟩) [3, 1] [2] :=
  ⟨rfl, by decide, by decide⟩

/-- a mixed tuple `s[:, np.array([2, 0])]` on a 2×3 base: a basic slice BEFORE the integer array (copy path; the array
    dimension stays in place) -/
example : Sel ⟨⟨fun _ => ⟨false, [2, 3], [⟨1, 0⟩, ⟨2, 0⟩, ⟨3, 0⟩, ⟨4, 0⟩, ⟨5, 0⟩, ⟨6, 0⟩]⟩, 1⟩, fun _ => ⟨.arr 0, .arr 0, false⟩, 1, []⟩ 0
    (.mixed [.sl ⟨none, none, none⟩] (some [2, 0]) []) [2, 0, 5, 3] [2, 2] :=
  ⟨rfl, by decide, by decide⟩

/-- non-adjacent advanced indices `s[0, :, np.array([3, 1])]` on a 2×3×4 base: the array dimension comes first -/
example : selIdx [2, 3, 4] (.mixed [.int 0, .sl ⟨none, none, none⟩] (some [3, 1]) []) = .ok ([3, 7, 11, 1, 5, 9], [2, 3]) := rfl

/-- resetting a slice clears only its own entries: the base keeps its sensitivity object, entries outside `pos` are
    unchanged and every other existing array is unchanged (any spec kind) -/
theorem slice_reset_only_idx_partial (w : World) (i r : Nat) (sp : SliceSpec) (pos shp' : List Nat)
    (hh : (w.sigs i).sens = .arr r) (hs : Sel w r sp pos shp') (hr : r < w.heap.next) :
    let w' := (resetSlice w (.base i) sp).1
    w'.sigs = w.sigs ∧
    (∀ j, j ∉ pos → (w'.heap.objs r).data.getD j 0 = (w.heap.objs r).data.getD j 0) ∧
    (∀ r', r' < w.heap.next → r' ≠ r → w'.heap.objs r' = w.heap.objs r') := by
  obtain ⟨h1, _, _, _, h2, h3, _, _, _⟩ := (slice_touches_only_idx_partial w i r sp pos shp' hh hs hr .none).2.2
  exact ⟨h1, h3, h2⟩

/-- … and the entries inside are 0 afterwards (basic slices / tuples of slices and integers, i.e. every VIEW spec; `hlen`, `hnd`: the index set has as many
    positions as the result shape says and no repeats — numpy facts about slices, checked by the `c18.sel` stream).
    Not proved for the integer-array paths (`intArr`, mixed tuples with an array; needs `intAxis` length bookkeeping); covered by the correspondence. -/
theorem slice_reset_zeroes_idx_partial (w : World) (i r : Nat) (sp : SliceSpec) (pos shp' : List Nat)
    (hh : (w.sigs i).sens = .arr r) (hs : Sel w r sp pos shp') (hv : sp.isView = true)
    (hlen : pos.length = prod shp') (hnd : pos.Nodup) :
    (resetSlice w (.base i) sp).2 = none ∧
    (∀ j, j ∈ pos → (((resetSlice w (.base i) sp).1).heap.objs r).data.getD j 0 = 0) := by
  have hh' : (w.sigs i).get .sens = .arr r := hh
  have e : resetSlice w (.base i) sp =
      (⟨w.heap.write r pos (List.replicate (prod shp') 0), w.sigs, w.nsig, w.exts⟩, none) := by
    cases sp with
    | intArr is => simp [SliceSpec.isView] at hv
    | mixed pre arr post =>
      cases arr with
      | some is => simp [SliceSpec.isView] at hv
      | none =>
        have hm := asView_arr_sel hs
        simp only [List.getD_eq_getElem?_getD] at hm
        simp [resetSlice, getField, hh', getItem, PVal.asView, hs.sel, SliceSpec.isView, setSens,
          writeField, setItem, prepSet, advShape, prepVal, PVal.src, hm, hs.nz]
    | basic s =>
      have hm := asView_arr_sel hs
      simp only [List.getD_eq_getElem?_getD] at hm
      simp [resetSlice, getField, hh', getItem, PVal.asView, hs.sel, SliceSpec.isView, setSens,
        writeField, setItem, prepSet, advShape, prepVal, PVal.src, hm, hs.nz]
    | tuple ss =>
      have hm := asView_arr_sel hs
      simp only [List.getD_eq_getElem?_getD] at hm
      simp [resetSlice, getField, hh', getItem, PVal.asView, hs.sel, SliceSpec.isView, setSens,
        writeField, setItem, prepSet, advShape, prepVal, PVal.src, hm, hs.nz]
  rw [e]
  refine ⟨rfl, fun j hj => ?_⟩
  obtain ⟨k, hk, rfl⟩ := List.getElem_of_mem hj
  rw [write_objs_self]
  have hk' : pos[k] = pos.getD k 0 := by simp [List.getD_eq_getElem?_getD, hk]
  rw [hk']
  have := writeList_getD_of_nodup (w.heap.objs r).data pos (List.replicate (prod shp') 0) hnd k hk
    (by simp [← hlen, hk]) (by rw [← hk']; exact hs.inb _ (List.getElem_mem hk))
  simp only [this]
  simp [List.getD_eq_getElem?_getD, ← hlen, hk]

example : ([3, 1] : List Nat).Nodup ∧ ([3, 1] : List Nat).length = prod [2] := by decide

/-- adding through a slice when the base has NO sensitivity yet: the base receives a FRESH array (`w.heap.next`) of the
    state's shape and dtype whose entries outside the slice are 0; the state object and every other existing array are
    untouched and no other holding changes -/
theorem slice_add_creates_zero_sens_partial (w : World) (i rs : Nat) (sp : SliceSpec) (pos shp' : List Nat) (v : PVal)
    (hv : v ≠ .none) (hse : (w.sigs i).sens = .none) (hst : (w.sigs i).state = .arr rs)
    (hs : Sel w rs sp pos shp') (hnz : (w.heap.objs rs).shape ≠ []) :
    let w' := (addSlice w (.base i) sp v).1
    (w'.sigs i).sens = .arr w.heap.next ∧ (w'.sigs i).state = .arr rs ∧ (∀ j, j ≠ i → w'.sigs j = w.sigs j) ∧
    (w'.heap.objs w.heap.next).shape = (w.heap.objs rs).shape ∧
    (w'.heap.objs w.heap.next).cplx = (w.heap.objs rs).cplx ∧
    (∀ j, j ∉ pos → (w'.heap.objs w.heap.next).data.getD j 0 = 0) ∧
    (∀ r', r' < w.heap.next → w'.heap.objs r' = w.heap.objs r') := by
  have hst' : (w.sigs i).get .state = .arr rs := hst
  have hse' : (w.sigs i).get .sens = .none := hse
  -- the world after `self.base.sensitivity = self.base.state * 0`
  let o : Obj := ⟨(w.heap.objs rs).cplx, (w.heap.objs rs).shape,
    List.replicate (List.range (w.heap.objs rs).data.length).length 0⟩
  let w4 : World := ({ w with heap := (w.heap.alloc o).1 } : World).setSens i (.arr w.heap.next)
  have e : addSlice w (.base i) sp v = addTail w4 (.base i) sp v := by
    cases v with
    | none => exact absurd rfl hv
    | _ => simp [addSlice, getField, hse', hst', initSens, mulZero, PVal.asView, setSens, w4, o, Heap.alloc, hnz]
  have h4s : (w4.sigs i).sens = .arr w.heap.next := by simp [w4, World.setSens]
  have hs4 : Sel w4 w.heap.next sp pos shp' := by
    refine ⟨?_, ?_, hs.nz⟩
    · have : (w4.heap.objs w.heap.next) = o := by simp [w4, World.setSens]
      rw [this]; exact hs.sel
    · have : (w4.heap.objs w.heap.next) = o := by simp [w4, World.setSens]
      rw [this]; simpa [o] using hs.inb
  have st := addTail_base (N := w.heap.next + 1) w4 i w.heap.next sp v pos shp' h4s hs4 (Nat.lt_succ_self _)
    (by simp [w4, World.setSens])
  rw [e]
  obtain ⟨h1, _, _, _, h2, h3, _, h5, h6⟩ := st
  refine ⟨by rw [h1]; exact h4s, by rw [h1]; simp [w4, World.setSens, hst], fun j hj => by rw [h1]; simp [w4, World.setSens, hj],
    ?_, ?_, ?_, ?_⟩
  · rw [h5]; simp [w4, World.setSens, o]
  · rw [h6]; simp [w4, World.setSens, o]
  · intro j hj
    rw [h3 j hj]
    simp only [w4, World.setSens, o, alloc_objs_new, List.length_range]
    by_cases hjl : j < (w.heap.objs rs).data.length <;> simp [List.getD_eq_getElem?_getD, hjl]
  · intro r' hr'
    rw [h2 r' (by omega) (by omega)]
    simp [w4, World.setSens, Nat.ne_of_lt hr']

/-- non-vacuity / end-to-end instance on the executable model: `s = Signal(state=[1,2,3,4])`, `s[::-1][0:2]` is not
    needed here — the depth-1 slice `s[-1::-2]` (positions 3, 1) receives `[10, 20]`, the caller then changes its array,
    a second signal receives the same object: the base sensitivity is `[0, 20, 0, 10]` in a fresh object (ref 2) and the
    second signal holds its own copy (ref 3) of the CHANGED caller array -/
example :
    let ops : List Op := [
      .newSignal (.newArr false [4] [⟨1, 0⟩, ⟨2, 0⟩, ⟨3, 0⟩, ⟨4, 0⟩]) .none,
      .newSignal .none .none,
      .add (.slice (.base 0) (.basic ⟨some (-1), none, some (-2)⟩)) (.newArr false [2] [⟨10, 0⟩, ⟨20, 0⟩]),
      .mutate (.ext 1) 5,
      .add (.base 1) (.ext 1)]
    let w := run World.empty ops
    (w.sigs 0).sens = .arr 2 ∧ (w.heap.objs 2).data = [⟨0, 0⟩, ⟨20, 0⟩, ⟨0, 0⟩, ⟨10, 0⟩] ∧
    (w.sigs 1).sens = .arr 3 ∧ (w.heap.objs 3).data = [⟨15, 0⟩, ⟨25, 0⟩] ∧ (w.heap.objs 1).data = [⟨15, 0⟩, ⟨25, 0⟩] := by
  decide

/-- rank-0 ndarrays are MUTABLE heap objects (unlike numpy scalars and Python numbers): `add_no_alias` applies to them.
    `s0.add_sensitivity(v)` with `v = np.array(2)` (ref 0), same object to `s1`, the caller then does `v += 5`, adds it to
    `s0` again and resets `s1` with kept allocation: `s0` holds its own object (ref 1) with 2 + 7, `s1` its own (ref 2)
    zeroed, and the caller's array is 7 (neither stored nor zeroed) -/
example :
    let ops : List Op := [
      .newSignal .none .none, .newSignal .none .none,
      .add (.base 0) (.newArr false [] [⟨2, 0⟩]), .add (.base 1) (.ext 0),
      .mutate (.ext 0) 5, .add (.base 0) (.ext 0), .reset (.base 1) (some true)]
    let w := run World.empty ops
    (w.sigs 0).sens = .arr 1 ∧ (w.heap.objs 1).data = [⟨9, 0⟩] ∧ (w.sigs 1).sens = .arr 2 ∧ (w.heap.objs 2).data = [⟨0, 0⟩] ∧
    (w.heap.objs 0).data = [⟨7, 0⟩] ∧ (w.heap.objs 1).shape = [] := by
  decide

/-- nested basic slices are clipped at EVERY level: `x[2:5][1:4]` of 10 entries is entries 3, 4 (not 3, 4, 5) and
    `x[3:6][5:9]` is empty -/
example :
    let w : World := ⟨⟨fun _ => ⟨false, [10], List.replicate 10 0⟩, 1⟩, fun _ => ⟨.arr 0, .none, false⟩, 1, []⟩
    (getField .state w (.slice (.slice (.base 0) (.basic ⟨some 2, some 5, none⟩)) (.basic ⟨some 1, some 4, none⟩))).toOption.map (·.2)
      = some (.view 0 [3, 4] [2]) ∧
    (getField .state w (.slice (.slice (.base 0) (.basic ⟨some 3, some 6, none⟩)) (.basic ⟨some 5, some 9, none⟩))).toOption.map (·.2)
      = some (.view 0 [] [0]) := by
  decide

/-! ## histories

All statements above hold in an ARBITRARY world, in particular in `run w₀ ops` for every operation sequence `ops`;
`run_append` makes the instantiation explicit. -/

theorem run_append (w : World) (a b : List Op) : run w (a ++ b) = run (run w a) b := by
  induction a generalizing w with
  | nil => rfl
  | cons op ops ih => exact ih _

/-- after ANY operation sequence, `reset()` of a signal that does not keep its allocation leaves it without sensitivity -/
theorem reset_clears_after_any_history (w : World) (ops : List Op) (i : Nat)
    (hk : ((run w ops).sigs i).keepAlloc = false) :
    ((run w (ops ++ [.reset (.base i) none])).sigs i).sens = .none := by
  rw [run_append]
  exact (reset_clears (run w ops) i none (by simpa using hk)).2.1

/-- after ANY operation sequence, `reset(True)` of a signal holding an array keeps that very object, zeroed -/
theorem reset_keepalloc_after_any_history (w : World) (ops : List Op) (i r : Nat)
    (hs : ((run w ops).sigs i).sens = .arr r) :
    let w' := run w (ops ++ [.reset (.base i) (some true)])
    (w'.sigs i).sens = .arr r ∧ ∀ j, j < ((run w ops).heap.objs r).data.length → (w'.heap.objs r).data.getD j 0 = 0 := by
  intro w'
  have e : w' = (resetPlain (run w ops) i (some true)).1 := by
    simp only [w', run_append]; rfl
  obtain ⟨_, h2, h3, _⟩ := reset_keepalloc_zero_same_object (run w ops) i r (some true) hs rfl
  rw [e]
  exact ⟨by rw [h2]; exact hs, h3⟩

end PymotoVerif.C18
