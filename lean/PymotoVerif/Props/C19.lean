/-
C19 — finite_difference is a faithful and non-destructive derivative check.
Property theorems ONLY (helper lemmas: `Lemmas/FD.lean`).

Model: `Core/FD.lean` (`fdCore` = lines 77-285 of `routines.py` for a block `B`, `fdNet` = the
sub-network selection in front of it) over the C02 model `Core/Network.lean`.
Vocabulary
* `Blk`            : the three entry points `response / sensitivity / reset` of the module / network;
                     `progBlk L g gs` is the block of the C02 program `g` whose `_sensitivity` code is
                     that of `gs` (`gs ≠ g` = a module with a deliberately wrong derivative);
* `BlkOK B S`      : `response` touches states only and none of the entries in `S`, `sensitivity` and
                     `reset` touch no state (`progBlk_ok`: every C02 program, `S` = entries it does
                     not write);
* a `Call`         : one invocation `test_fn(x0, dx, an, fd)`, tagged with input `iin`, flat entry
                     `j`, pass `imag` and output `iout`;
* `CallOK … c`     : the perturbation that produced `c` (store before, perturbed input, perturbed
                     response, loop over the outputs);
* `RecOK … o r`    : provenance of the analytical record of output `o` (seed, back-propagation).
The theorems about values hold for ANY scalar type with the operations of the model (in particular
for `Cx Rat`, the complex numbers the driver runs); only the algebra of the difference quotient
needs a field, and the `O(dx)` bound for general smooth modules (`fd_numerical_smooth…`, Taylor with
Lagrange remainder, helper lemmas `Lemmas/FDSmooth.lean`) is stated over `ℝ`.
-/
import PymotoVerif.Lemmas.FD
import PymotoVerif.Lemmas.FDSmooth
import Mathlib.Analysis.Calculus.Deriv.Pow
import Mathlib.Analysis.SpecialFunctions.ExpDeriv
import Mathlib.Tactic.Ring
import Mathlib.Tactic.FieldSimp
import Mathlib.Algebra.Field.Basic
import Mathlib.Algebra.Field.Rat

namespace PymotoVerif.C19
open PymotoVerif PymotoVerif.Net PymotoVerif.FD Finset

section generic
variable {α : Type} [Add α] [Mul α] [Sub α] [Div α] [OfNat α 0] [OfNat α 1] [DecidableEq α]

/-! ## non-destructive -/

/-- After the call every store entry the block does not write — in particular every entry of every
    input (`hS`) — holds EXACTLY the value it held before (the saved `x0` is written back, not
    `x0 + h - h`), for all options, seeds and data types. -/
theorem fd_restores_state (ops : Ops α) (B : Blk α) (S : Nat → Prop) (hB : BlkOK B S) (L : Layout)
    (cfg : Cfg α) (inps : List InSig) (outps : List (OutSig α))
    (hn : ∀ i ∈ inps, i.sig.ents.Nodup) (hS : ∀ i ∈ inps, ∀ e ∈ i.sig.ents, S e)
    (hv : ∀ i ∈ inps, ∀ j ∈ i.visit, j < i.sig.ents.length)
    (σ : Store α) (res : Res α) (h : fdCore ops B L cfg inps outps σ = .ok res) :
    ∀ e, S e → res.store.st e = σ.st e := by
  obtain ⟨σ2, σ3, recs, h1, h2, h3⟩ := fdCore_stages ops B L cfg inps outps σ res h
  obtain ⟨a1, _⟩ := analytical_spec ops B S hB L _ inps (fun _ => True) (fun _ _ _ _ _ => trivial)
    (fun _ => trivial) outps σ2 σ3 recs h2
  obtain ⟨b1, _⟩ := inputLoop_spec ops B S hB cfg outps recs σ3.st 0 inps hn hS hv σ3 res.store res.calls
    (fun _ _ => rfl) h3
  intro e he
  rw [b1 e he, a1, hB.resp_st _ _ h1 e he, resetAll_st B S hB]

/-- … for a C02 program: every entry that no module of the (selected) network writes. -/
theorem fd_restores_state_prog (ops : Ops α) (L : Layout) (g gs : Prog α) (cfg : Cfg α)
    (inps : List InSig) (outps : List (OutSig α)) (hn : ∀ i ∈ inps, i.sig.ents.Nodup)
    (hS : ∀ i ∈ inps, ∀ e ∈ i.sig.ents, e ∉ progOutEnts g)
    (hv : ∀ i ∈ inps, ∀ j ∈ i.visit, j < i.sig.ents.length)
    (σ : Store α) (res : Res α) (h : fdCore ops (progBlk L g gs) L cfg inps outps σ = .ok res) :
    ∀ e, e ∉ progOutEnts g → res.store.st e = σ.st e :=
  fd_restores_state ops _ _ (progBlk_ok L g gs) L cfg inps outps hn hS hv σ res h

/-- No sensitivity is left set: after the call every signal of the examined network (inputs and
    outputs of every module, nested networks included) AND every input / output of interest —
    whether or not it belongs to the executed modules — has sensitivity `None` or all zeros (the
    latter only for `keep_alloc` signals and sliced containers). -/
theorem fd_leaves_no_sensitivity (ops : Ops α) (L : Layout) (g gs : Prog α) (cfg : Cfg α)
    (inps : List InSig) (outps : List (OutSig α)) (hn : ∀ i ∈ inps, i.sig.ents.Nodup)
    (hS : ∀ i ∈ inps, ∀ e ∈ i.sig.ents, e ∉ progOutEnts g)
    (hv : ∀ i ∈ inps, ∀ j ∈ i.visit, j < i.sig.ents.length)
    (σ : Store α) (res : Res α) (h : fdCore ops (progBlk L g gs) L cfg inps outps σ = .ok res) :
    ∀ s ∈ progSigs g ++ (inps.map (·.sig) ++ outps.map (·.sig)), SigClear s res.store := by
  obtain ⟨σ2, σ3, recs, h1, h2, h3⟩ := fdCore_stages ops _ L cfg inps outps σ res h
  have hB := progBlk_ok L g gs
  let extra := inps.map (·.sig) ++ outps.map (·.sig)
  let P : Store α → Prop := fun τ => ∀ s ∈ progSigs g ++ extra, SigClear s τ
  have hP : ∀ τ τ' : Store α, τ'.se = τ.se → τ'.hasSe = τ.hasSe → P τ → P τ' := by
    intro τ τ' e1 e2 hp s hs hb e he
    rw [e1]; exact hp s hs (by rw [← e2]; exact hb) e he
  have hreset : ∀ τ, P (resetAll (progBlk L g gs) L extra τ) := by
    intro τ s hs
    rcases List.mem_append.mp hs with hs | hs
    · exact foldl_resetSig_clear_keep L extra s _ (Prog.reset_clear L g τ s hs)
    · exact foldl_resetSig_clear L extra _ s hs
  obtain ⟨_, a2, _⟩ := analytical_spec ops _ _ hB L extra inps P hP hreset outps σ2 σ3 recs h2
  obtain ⟨_, b2, b3, _⟩ := inputLoop_spec ops _ _ hB cfg outps recs σ3.st 0 inps hn hS hv σ3 res.store
    res.calls (fun _ _ => rfl) h3
  obtain ⟨c1, c2⟩ := hB.resp_se _ _ h1
  exact hP σ3 res.store b2 b3 (a2 (hP _ σ2 c1 c2 (hreset σ)))

/-! ## what is reported -/

/-- Every call of `test_fn` comes from a perturbation of one flat entry `j` of one input, not skipped
    by the zero-structure rule, in the real direction or (complex inputs only) the imaginary one;
    the store it starts from agrees with the original on everything the block does not write; `x0`
    is the unperturbed entry and `dx` the configured step.  (`CallOK` also carries the perturbed
    response and the loop over the outputs.) -/
theorem fd_calls_provenance (ops : Ops α) (B : Blk α) (S : Nat → Prop) (hB : BlkOK B S) (L : Layout)
    (cfg : Cfg α) (inps : List InSig) (outps : List (OutSig α))
    (hn : ∀ i ∈ inps, i.sig.ents.Nodup) (hS : ∀ i ∈ inps, ∀ e ∈ i.sig.ents, S e)
    (hv : ∀ i ∈ inps, ∀ j ∈ i.visit, j < i.sig.ents.length)
    (σ : Store α) (res : Res α) (h : fdCore ops B L cfg inps outps σ = .ok res) :
    ∃ σ2 recs, B.response (resetAll B L (inps.map (·.sig) ++ outps.map (·.sig)) σ) = .ok σ2 ∧
      recs.length = outps.length ∧
      (∀ (k : Nat) o r, outps[k]? = some o → recs[k]? = some (some r) → RecOK ops B L inps σ2.st o r) ∧
      ∀ c ∈ res.calls, ∃ i x, inps[c.iin]? = some i ∧ c.j ∈ i.visit ∧
        (∀ m, m < i.sig.ents.length → x m = σ2.st (i.sig.ents.getD m 0)) ∧
        CallOK ops B cfg outps recs S σ2.st i c.iin x c := by
  obtain ⟨σ2, σ3, recs, h1, h2, h3⟩ := fdCore_stages ops B L cfg inps outps σ res h
  obtain ⟨a1, _, a3, a4⟩ := analytical_spec ops B S hB L _ inps (fun _ => True) (fun _ _ _ _ _ => trivial)
    (fun _ => trivial) outps σ2 σ3 recs h2
  obtain ⟨_, _, _, b4⟩ := inputLoop_spec ops B S hB cfg outps recs σ3.st 0 inps hn hS hv σ3 res.store
    res.calls (fun _ _ => rfl) h3
  refine ⟨σ2, recs, h1, a3, a4, fun c hc => ?_⟩
  obtain ⟨k, i, x, e1, e2, e2', e3, e4⟩ := b4 c hc
  rw [a1] at e3 e4
  exact ⟨i, x, by rw [e1, Nat.zero_add]; exact e2, e2', e3, e4⟩

/-- The analytical value handed to `test_fn` is the real (imaginary pass: imaginary) part of entry
    `j` of the sensitivity that `blk.sensitivity()` back-propagated into the input after ONLY the
    output `iout` had been seeded with the seed used for that output, from a store whose states are
    those of the reference response; `0` when that sensitivity is `None`. -/
theorem fd_analytical_is_backprop (ops : Ops α) (B : Blk α) (S : Nat → Prop) (hB : BlkOK B S)
    (L : Layout) (cfg : Cfg α) (inps : List InSig) (outps : List (OutSig α))
    (hn : ∀ i ∈ inps, i.sig.ents.Nodup) (hS : ∀ i ∈ inps, ∀ e ∈ i.sig.ents, S e)
    (hv : ∀ i ∈ inps, ∀ j ∈ i.visit, j < i.sig.ents.length)
    (σ : Store α) (res : Res α) (h : fdCore ops B L cfg inps outps σ = .ok res) :
    ∃ σ2, B.response (resetAll B L (inps.map (·.sig) ++ outps.map (·.sig)) σ) = .ok σ2 ∧
      ∀ c ∈ res.calls, ∃ i o σpre σa σb, inps[c.iin]? = some i ∧ outps[c.iout]? = some o ∧
        σpre.st = σ2.st ∧ seed L o.sig (some (seedVals ops o)) σpre = .ok σa ∧
        B.sensitivity σa = .ok σb ∧
        c.an = (if i.sig.hasSens σb then
                  (if c.imag then ops.im (σb.se (i.sig.ents.getD c.j 0)) else ops.re (σb.se (i.sig.ents.getD c.j 0)))
                else 0) := by
  obtain ⟨σ2, recs, h1, _, hrec, hcalls⟩ :=
    fd_calls_provenance ops B S hB L cfg inps outps hn hS hv σ res h
  refine ⟨σ2, h1, fun c hc => ?_⟩
  obtain ⟨i, x, hi, _, _, _, _, _, σ', σp, σr, cs', _, _, _, hout, hmem⟩ := hcalls c hc
  obtain ⟨_, _, _, _, _, m, o, r, e1, e2, e3, _, e5, _⟩ := outCalls_spec ops _ _ _ _ _ _ _ _ _ _ _ hout c hmem
  rw [Nat.zero_add] at e1
  obtain ⟨σpre, σa, σb, p1, p2, p3, _, p5, _⟩ := hrec m o r e2 e3
  refine ⟨i, o, σpre, σa, σb, hi, by rw [e1]; exact e2, p1, p2, p3, ?_⟩
  rw [e5]
  unfold anVal
  rw [p5]
  have : (inps.map fun i => if i.sig.hasSens σb then some (sigVals i.sig σb.se) else none).getD c.iin none
      = if i.sig.hasSens σb then some (sigVals i.sig σb.se) else none := by
    rw [List.getD_eq_getElem?_getD, List.getElem?_map, hi]; rfl
  rw [this]
  by_cases hs : i.sig.hasSens σb = true
  · simp only [hs, if_true, sigVals]
  · simp only [hs, if_false]
    rfl

/-- All entries are visited, or exactly the non-zero ones: a call for input `iin`, entry `j` exists
    only for an entry the iterator visits (all flat entries; the stored entries of a sparse matrix)
    that is not skipped by the zero-structure rule, `x0` is its unperturbed value, and the imaginary
    pass occurs only for complex inputs.  (The converse — one call per visited, non-skipped entry,
    direction and output with a state — is checked on every run by the oracle, not proved.) -/
theorem fd_entries_covered (ops : Ops α) (B : Blk α) (S : Nat → Prop) (hB : BlkOK B S) (L : Layout)
    (cfg : Cfg α) (inps : List InSig) (outps : List (OutSig α))
    (hn : ∀ i ∈ inps, i.sig.ents.Nodup) (hS : ∀ i ∈ inps, ∀ e ∈ i.sig.ents, S e)
    (hv : ∀ i ∈ inps, ∀ j ∈ i.visit, j < i.sig.ents.length)
    (σ : Store α) (res : Res α) (h : fdCore ops B L cfg inps outps σ = .ok res) :
    ∃ σ2, B.response (resetAll B L (inps.map (·.sig) ++ outps.map (·.sig)) σ) = .ok σ2 ∧
      ∀ c ∈ res.calls, ∃ i, inps[c.iin]? = some i ∧ c.j ∈ i.visit ∧ c.j < i.sig.ents.length ∧
        c.x0 = σ2.st (i.sig.ents.getD c.j 0) ∧ c.dx = cfg.dx ∧
        skipEntry cfg i c.x0 = false ∧ (c.imag = true → i.cx = true) := by
  obtain ⟨σ2, recs, h1, _, _, hcalls⟩ :=
    fd_calls_provenance ops B S hB L cfg inps outps hn hS hv σ res h
  refine ⟨σ2, h1, fun c hc => ?_⟩
  obtain ⟨i, x, hi, hvis, hx, hj, hsk, hcx, σ', σp, σr, cs', _, _, _, hout, hmem⟩ := hcalls c hc
  obtain ⟨_, _, _, e4, e5, _⟩ := outCalls_spec ops _ _ _ _ _ _ _ _ _ _ _ hout c hmem
  exact ⟨i, hi, hvis, hj, by rw [e4, hx c.j hj], e5, by rw [e4]; exact hsk, hcx⟩

/-! ## sub-network selection -/

/-- The selected slice computes the outputs of the whole network: running `blks_pre` (the items
    before `i_first`) and then the slice `mods[i_first : i_last+1]` gives, on every entry that the
    items after `i_last` do not write (all entries of the outputs of interest — `i_last` is the LAST
    item that writes one of their base signals), the same states as running the whole network.
    Hence the perturbed responses `finite_difference` evaluates (perturb, run the slice) are the
    responses of the whole network at the perturbed inputs whenever `blks_pre` does not read the
    perturbed inputs (`i_first` is the FIRST item that reads one of their base signals; for a
    topologically ordered network nothing before it depends on them). -/
theorem fd_subnetwork_sound (g : Prog α) (f l : Nat) (σ τ : Store α) (h : g.response σ = .ok τ) :
    ∃ σ0 τ', (takeI f g).response σ = .ok σ0 ∧ (sliceI f l g).response σ0 = .ok τ' ∧
      ∀ e, e ∉ progOutEnts (dropI (l + 1 - f) (dropI f g)) → τ.st e = τ'.st e := by
  rw [response_split f g σ] at h
  cases h1 : (takeI f g).response σ with
  | error e => rw [h1] at h; cases h
  | ok σ0 =>
    rw [h1] at h; simp only at h
    rw [response_split (l + 1 - f) (dropI f g) σ0] at h
    cases h2 : (takeI (l + 1 - f) (dropI f g)).response σ0 with
    | error e => rw [h2] at h; cases h
    | ok τ' =>
      rw [h2] at h; simp only at h
      exact ⟨σ0, τ', rfl, h2, fun e he => (Prog.response_st _ _ _ h).1 e he⟩

/- NOT PROVED (remaining half of the sub-network claim): that `blks_pre` is independent of the perturbed
   inputs, i.e. `(takeI f g).response` commutes with changing entries of base signals that no item before
   `i_first` reads (needs a read-frame lemma for `Prim.response`); and that an input which is an INTERNAL
   signal of a nested network is invisible to the selection — on the real code this makes the reported pair
   (0, 0) although the derivative is not 0 (open finding fd-fromsig-inside-nested-network, witness `corpus/defects/pending/c19_nested_internal_input.py`). -/

end generic

/-! ## the numerical value (real data: `re = id`) -/

section field
variable {α : Type} [Field α] [DecidableEq α]

/-- real instance of the scalar interface -/
def realOps (abs : α → α) : Ops α := { re := id, im := fun _ => 0, abs := abs, I := 0 }

/-- Algebra of the difference quotient: if the perturbed responses of an output expand as
    `f0 + h·D + h²·Q` (every polynomial module of degree ≤ 2, `local_jacobian_is_derivative` of C02),
    the reported numerical value is `Σ D·w + h · Σ Q·w`: the true directional derivative plus `h`
    times a constant that does not depend on `h`. -/
theorem fd_numerical_quadratic (abs : α → α) (o : OutSig α) (r : OutRec α) (σr : Store α) (h : α) (hh : h ≠ 0)
    (D Q : Nat → α)
    (hexp : ∀ m, m < o.sig.ents.length → σr.st (o.sig.ents.getD m 0) = r.f0 m + h * D m + h * h * Q m) :
    fdVal (realOps abs) false h o r σr
      = (∑ m ∈ range o.sig.ents.length, D m * r.w m) + h * ∑ m ∈ range o.sig.ents.length, Q m * r.w m := by
  unfold fdVal
  simp only [realOps, id, Bool.false_eq_true, if_false, sumRange_eq]
  rw [Finset.mul_sum, ← Finset.sum_add_distrib]
  apply Finset.sum_congr rfl
  intro m hm
  rw [hexp m (Finset.mem_range.mp hm)]
  field_simp
  ring

/-- Affine modules: the numerical value IS the directional derivative, exactly, for every `h ≠ 0`. -/
theorem fd_numerical_exact_affine (abs : α → α) (o : OutSig α) (r : OutRec α) (σr : Store α) (h : α) (hh : h ≠ 0)
    (D : Nat → α)
    (hexp : ∀ m, m < o.sig.ents.length → σr.st (o.sig.ents.getD m 0) = r.f0 m + h * D m) :
    fdVal (realOps abs) false h o r σr = ∑ m ∈ range o.sig.ents.length, D m * r.w m := by
  rw [fd_numerical_quadratic abs o r σr h hh D (fun _ => 0) (fun m hm => by rw [hexp m hm]; ring)]
  simp

/-- A correct sensitivity (analytical value = true derivative `Σ D·w`) is reported with a pair that
    differs by exactly `h·c`: it matches up to `O(h)`, and exactly for an affine module. -/
theorem fd_accepts_right_sensitivity (abs : α → α) (o : OutSig α) (r : OutRec α) (σr : Store α) (h : α)
    (hh : h ≠ 0) (D Q : Nat → α) (an : α)
    (hexp : ∀ m, m < o.sig.ents.length → σr.st (o.sig.ents.getD m 0) = r.f0 m + h * D m + h * h * Q m)
    (hright : an = ∑ m ∈ range o.sig.ents.length, D m * r.w m) :
    fdVal (realOps abs) false h o r σr - an = h * ∑ m ∈ range o.sig.ents.length, Q m * r.w m := by
  rw [fd_numerical_quadratic abs o r σr h hh D Q hexp, hright]; ring

/-- A wrong sensitivity (analytical value off by `δ ≠ 0` from the true derivative) is reported with a
    non-matching pair: the two numbers differ by `h·c − δ`, which is non-zero for every step except the
    single value `h = δ / c` (and for every step when the module is affine, `c = 0`). -/
theorem fd_detects_wrong_sensitivity (abs : α → α) (o : OutSig α) (r : OutRec α) (σr : Store α) (h : α)
    (hh : h ≠ 0) (D Q : Nat → α) (an δ : α)
    (hexp : ∀ m, m < o.sig.ents.length → σr.st (o.sig.ents.getD m 0) = r.f0 m + h * D m + h * h * Q m)
    (hwrong : an = (∑ m ∈ range o.sig.ents.length, D m * r.w m) + δ)
    (hδ : h * ∑ m ∈ range o.sig.ents.length, Q m * r.w m ≠ δ) :
    fdVal (realOps abs) false h o r σr ≠ an := by
  rw [fd_numerical_quadratic abs o r σr h hh D Q hexp, hwrong]
  intro heq
  apply hδ
  have := add_left_cancel heq
  exact this

end field

/-! ## the numerical value for a general smooth module (`ℝ`, Taylor with Lagrange remainder) -/

section smooth

/-- **`O(dx)` at full strength.**  Real data, step `h > 0`.  `F s m` is entry `m` of the output when the input entry is
    perturbed by `s` (`F 0 = f0`, the reference response; `F h` = the perturbed response the procedure evaluated), so
    `φ s = Σ_m F s m · w m` is the seeded response along the perturbation.  If `φ` has derivative `φ'` on `[0, h]`, `φ'` is
    continuous there and has derivative `φ''` inside with `|φ''| ≤ M`, then the reported numerical value differs from
    the true directional derivative `φ' 0` by at most `M·h/2`. -/
theorem fd_numerical_smooth (abs : ℝ → ℝ) (o : OutSig ℝ) (r : OutRec ℝ) (σr : Store ℝ) (h M : ℝ) (hh : 0 < h)
    (F : ℝ → Nat → ℝ) (φ' φ'' : ℝ → ℝ)
    (hF0 : ∀ m, m < o.sig.ents.length → F 0 m = r.f0 m)
    (hFh : ∀ m, m < o.sig.ents.length → F h m = σr.st (o.sig.ents.getD m 0))
    (hd1 : ∀ s ∈ Set.Icc 0 h, HasDerivWithinAt (fun s => ∑ m ∈ range o.sig.ents.length, F s m * r.w m) (φ' s)
      (Set.Icc 0 h) s)
    (hc : ContinuousOn φ' (Set.Icc 0 h))
    (hd2 : ∀ s ∈ Set.Ioo 0 h, HasDerivAt φ' (φ'' s) s)
    (hM : ∀ s ∈ Set.Ioo 0 h, |φ'' s| ≤ M) :
    |fdVal (realOps abs) false h o r σr - φ' 0| ≤ M * h / 2 := by
  rw [fdVal_real_eq (realOps abs) rfl]
  have e0 : ∑ m ∈ range o.sig.ents.length, r.f0 m * r.w m = ∑ m ∈ range o.sig.ents.length, F 0 m * r.w m :=
    Finset.sum_congr rfl fun m hm => by rw [hF0 m (Finset.mem_range.mp hm)]
  have eh : ∑ m ∈ range o.sig.ents.length, σr.st (o.sig.ents.getD m 0) * r.w m
      = ∑ m ∈ range o.sig.ents.length, F h m * r.w m :=
    Finset.sum_congr rfl fun m hm => by rw [hFh m (Finset.mem_range.mp hm)]
  rw [e0, eh]
  exact fwd_diff_error (φ := fun s => ∑ m ∈ range o.sig.ents.length, F s m * r.w m) hh hd1 hc hd2 hM

/-- the same for a negative step (`h` is the step actually applied, i.e. the divisor `den` of the model, `dx` or
    `dx·|x0|` with `relative_dx`; negative when `dx < 0`): error `M·|h|/2`, derivatives on `[h, 0]` -/
theorem fd_numerical_smooth_neg (abs : ℝ → ℝ) (o : OutSig ℝ) (r : OutRec ℝ) (σr : Store ℝ) (h M : ℝ) (hh : h < 0)
    (F : ℝ → Nat → ℝ) (φ' φ'' : ℝ → ℝ)
    (hF0 : ∀ m, m < o.sig.ents.length → F 0 m = r.f0 m)
    (hFh : ∀ m, m < o.sig.ents.length → F h m = σr.st (o.sig.ents.getD m 0))
    (hd1 : ∀ s ∈ Set.Icc h 0, HasDerivWithinAt (fun s => ∑ m ∈ range o.sig.ents.length, F s m * r.w m) (φ' s)
      (Set.Icc h 0) s)
    (hc : ContinuousOn φ' (Set.Icc h 0))
    (hd2 : ∀ s ∈ Set.Ioo h 0, HasDerivAt φ' (φ'' s) s)
    (hM : ∀ s ∈ Set.Ioo h 0, |φ'' s| ≤ M) :
    |fdVal (realOps abs) false h o r σr - φ' 0| ≤ M * |h| / 2 := by
  rw [fdVal_real_eq (realOps abs) rfl]
  have e0 : ∑ m ∈ range o.sig.ents.length, r.f0 m * r.w m = ∑ m ∈ range o.sig.ents.length, F 0 m * r.w m :=
    Finset.sum_congr rfl fun m hm => by rw [hF0 m (Finset.mem_range.mp hm)]
  have eh : ∑ m ∈ range o.sig.ents.length, σr.st (o.sig.ents.getD m 0) * r.w m
      = ∑ m ∈ range o.sig.ents.length, F h m * r.w m :=
    Finset.sum_congr rfl fun m hm => by rw [hFh m (Finset.mem_range.mp hm)]
  rw [e0, eh]
  exact fwd_diff_error_neg (φ := fun s => ∑ m ∈ range o.sig.ents.length, F s m * r.w m) hh hd1 hc hd2 hM

/-- `C²` formulation: the seeded response is twice continuously differentiable on an open set containing `[0, h]`
    and `|φ''| ≤ M` on `(0, h)`; the true derivative is `deriv φ 0`. -/
theorem fd_numerical_smooth_contDiffOn (abs : ℝ → ℝ) (o : OutSig ℝ) (r : OutRec ℝ) (σr : Store ℝ) (h M : ℝ)
    (hh : 0 < h) (F : ℝ → Nat → ℝ) (U : Set ℝ) (hU : IsOpen U) (hsub : Set.Icc 0 h ⊆ U)
    (hF0 : ∀ m, m < o.sig.ents.length → F 0 m = r.f0 m)
    (hFh : ∀ m, m < o.sig.ents.length → F h m = σr.st (o.sig.ents.getD m 0))
    (hφ : ContDiffOn ℝ 2 (fun s => ∑ m ∈ range o.sig.ents.length, F s m * r.w m) U)
    (hM : ∀ s ∈ Set.Ioo 0 h,
      |deriv (deriv fun s => ∑ m ∈ range o.sig.ents.length, F s m * r.w m) s| ≤ M) :
    |fdVal (realOps abs) false h o r σr - deriv (fun s => ∑ m ∈ range o.sig.ents.length, F s m * r.w m) 0|
      ≤ M * h / 2 := by
  rw [fdVal_real_eq (realOps abs) rfl]
  have e0 : ∑ m ∈ range o.sig.ents.length, r.f0 m * r.w m = ∑ m ∈ range o.sig.ents.length, F 0 m * r.w m :=
    Finset.sum_congr rfl fun m hm => by rw [hF0 m (Finset.mem_range.mp hm)]
  have eh : ∑ m ∈ range o.sig.ents.length, σr.st (o.sig.ents.getD m 0) * r.w m
      = ∑ m ∈ range o.sig.ents.length, F h m * r.w m :=
    Finset.sum_congr rfl fun m hm => by rw [hFh m (Finset.mem_range.mp hm)]
  rw [e0, eh]
  exact fwd_diff_error_contDiffOn (φ := fun s => ∑ m ∈ range o.sig.ents.length, F s m * r.w m) hh hU hsub hφ hM

/-- entrywise formulation (the shape of `fd_numerical_quadratic`): every output entry is twice differentiable along the
    perturbation with `|∂²F_m/∂s²| ≤ K m`; then the numerical value is within `h/2 · Σ_m K m · |w m|` of the true
    directional derivative `Σ_m D m · w m`, `D m = ∂F_m/∂s (0)`. -/
theorem fd_numerical_smooth_entrywise (abs : ℝ → ℝ) (o : OutSig ℝ) (r : OutRec ℝ) (σr : Store ℝ) (h : ℝ) (hh : 0 < h)
    (F F' F'' : ℝ → Nat → ℝ) (K : Nat → ℝ)
    (hF0 : ∀ m, m < o.sig.ents.length → F 0 m = r.f0 m)
    (hFh : ∀ m, m < o.sig.ents.length → F h m = σr.st (o.sig.ents.getD m 0))
    (hd1 : ∀ m, m < o.sig.ents.length → ∀ s ∈ Set.Icc 0 h,
      HasDerivWithinAt (fun s => F s m) (F' s m) (Set.Icc 0 h) s)
    (hc : ∀ m, m < o.sig.ents.length → ContinuousOn (fun s => F' s m) (Set.Icc 0 h))
    (hd2 : ∀ m, m < o.sig.ents.length → ∀ s ∈ Set.Ioo 0 h, HasDerivAt (fun s => F' s m) (F'' s m) s)
    (hK : ∀ m, m < o.sig.ents.length → ∀ s ∈ Set.Ioo 0 h, |F'' s m| ≤ K m) :
    |fdVal (realOps abs) false h o r σr - ∑ m ∈ range o.sig.ents.length, F' 0 m * r.w m|
      ≤ (∑ m ∈ range o.sig.ents.length, K m * |r.w m|) * h / 2 :=
  fd_numerical_smooth abs o r σr h _ hh F (seeded o.sig.ents.length r.w F') (seeded o.sig.ents.length r.w F'') hF0 hFh
    (fun s hs => seeded_hasDerivWithinAt _ _ F F' _ s fun m hm => hd1 m hm s hs)
    (seeded_continuousOn _ _ F' _ hc)
    (fun s hs => seeded_hasDerivAt _ _ F' F'' s fun m hm => hd2 m hm s hs)
    (fun s hs => seeded_abs_le _ _ F'' K s fun m hm => hK m hm s hs)

/-- **a correct sensitivity is accepted** (smooth module): if the analytical value is the true directional derivative,
    the reported pair differs by at most `M·h/2`. -/
theorem fd_accepts_right_sensitivity_smooth (abs : ℝ → ℝ) (o : OutSig ℝ) (r : OutRec ℝ) (σr : Store ℝ) (h M : ℝ)
    (hh : 0 < h) (F : ℝ → Nat → ℝ) (φ' φ'' : ℝ → ℝ) (an : ℝ)
    (hF0 : ∀ m, m < o.sig.ents.length → F 0 m = r.f0 m)
    (hFh : ∀ m, m < o.sig.ents.length → F h m = σr.st (o.sig.ents.getD m 0))
    (hd1 : ∀ s ∈ Set.Icc 0 h, HasDerivWithinAt (fun s => ∑ m ∈ range o.sig.ents.length, F s m * r.w m) (φ' s)
      (Set.Icc 0 h) s)
    (hc : ContinuousOn φ' (Set.Icc 0 h))
    (hd2 : ∀ s ∈ Set.Ioo 0 h, HasDerivAt φ' (φ'' s) s)
    (hM : ∀ s ∈ Set.Ioo 0 h, |φ'' s| ≤ M)
    (hright : an = φ' 0) :
    |fdVal (realOps abs) false h o r σr - an| ≤ M * h / 2 := by
  rw [hright]; exact fd_numerical_smooth abs o r σr h M hh F φ' φ'' hF0 hFh hd1 hc hd2 hM

/-- **a wrong sensitivity is detected** (smooth module): if the analytical value is off by at least `δ` from the true
    directional derivative, the reported pair differs by at least `δ − M·h/2`; in particular it does not match as soon
    as the step satisfies `M·h/2 < δ`. -/
theorem fd_detects_wrong_sensitivity_smooth (abs : ℝ → ℝ) (o : OutSig ℝ) (r : OutRec ℝ) (σr : Store ℝ) (h M : ℝ)
    (hh : 0 < h) (F : ℝ → Nat → ℝ) (φ' φ'' : ℝ → ℝ) (an δ : ℝ)
    (hF0 : ∀ m, m < o.sig.ents.length → F 0 m = r.f0 m)
    (hFh : ∀ m, m < o.sig.ents.length → F h m = σr.st (o.sig.ents.getD m 0))
    (hd1 : ∀ s ∈ Set.Icc 0 h, HasDerivWithinAt (fun s => ∑ m ∈ range o.sig.ents.length, F s m * r.w m) (φ' s)
      (Set.Icc 0 h) s)
    (hc : ContinuousOn φ' (Set.Icc 0 h))
    (hd2 : ∀ s ∈ Set.Ioo 0 h, HasDerivAt φ' (φ'' s) s)
    (hM : ∀ s ∈ Set.Ioo 0 h, |φ'' s| ≤ M)
    (hwrong : δ ≤ |an - φ' 0|) :
    δ - M * h / 2 ≤ |fdVal (realOps abs) false h o r σr - an| ∧
      (M * h / 2 < δ → fdVal (realOps abs) false h o r σr ≠ an) := by
  have hfd := fd_numerical_smooth abs o r σr h M hh F φ' φ'' hF0 hFh hd1 hc hd2 hM
  have htri : |an - φ' 0| ≤ |fdVal (realOps abs) false h o r σr - an| + |fdVal (realOps abs) false h o r σr - φ' 0| := by
    have e : an - φ' 0 = -(fdVal (realOps abs) false h o r σr - an) + (fdVal (realOps abs) false h o r σr - φ' 0) := by
      ring
    rw [e]
    exact le_trans (abs_add_le _ _) (by rw [abs_neg])
  have hlow : δ - M * h / 2 ≤ |fdVal (realOps abs) false h o r σr - an| := by linarith
  refine ⟨hlow, fun hδ heq => ?_⟩
  rw [heq, sub_self, abs_zero] at hlow
  linarith

end smooth

/-! ## non-vacuity -/

namespace Demo
/-- `y = x²` on one entry: base 0 = `x` (entry 0), base 1 = `y` (entry 1) -/
def L : Layout := { bents := fun b => [b], keep := fun _ => false }
def x : Sig := ⟨0, 0, false, [0]⟩
def y : Sig := ⟨1, 1, false, [1]⟩
def pSq : Prim ℚ := ⟨.sq, [x], [y], [1]⟩
def g : Prog ℚ := .prim pSq .done
def σ0 : Store ℚ :=
  { st := fun e => if e = 0 then 3 else 0, se := fun _ => 0,
    hasSt := fun b => decide (b = 0), hasSe := fun _ => false }
def cfg : Cfg ℚ := ⟨1 / 4, false, true⟩
def ops : Ops ℚ := realOps (fun q => if q < 0 then -q else q)
end Demo

open Demo in
/-- the hypotheses of the structural theorems hold for a concrete module, the procedure succeeds and
    reports `(x0, dx, an, fd) = (3, 1/4, 6, 6 + 1/4)`: analytical `2x`, numerical `2x + h`. -/
example : (∀ i ∈ [(⟨x, false, false, [0], false⟩ : InSig)], i.sig.ents.Nodup) ∧
    (∀ i ∈ [(⟨x, false, false, [0], false⟩ : InSig)], ∀ e ∈ i.sig.ents, e ∉ progOutEnts g) ∧
    ∃ res, fdCore ops (progBlk L g g) L cfg [⟨x, false, false, [0], false⟩] [⟨y, false, .ones⟩] σ0 = .ok res ∧
      res.calls.map (fun c => (c.x0, c.dx, c.an, c.fd)) = [(3, 1 / 4, 6, 25 / 4)] ∧
      res.store.st 0 = 3 ∧ res.store.hasSe 0 = false ∧ res.store.hasSe 1 = false := by
  refine ⟨by decide, by decide, _, rfl, ?_, ?_, ?_, ?_⟩ <;> decide +kernel

/-- the expansion hypothesis of the numerical theorems is satisfiable with `Q ≠ 0`: `(3 + h)² = 9 + h·6 + h²·1` -/
example (h : ℚ) : (3 + h) * (3 + h) = 9 + h * 6 + h * h * 1 := by ring

/-- the hypotheses of the Taylor bound behind `fd_numerical_smooth` are satisfiable by a non-polynomial function:
    `φ = exp`, `M = exp h` gives `|(e^h − 1)/h − 1| ≤ e^h · h / 2` -/
example (h : ℝ) (hh : 0 < h) : |(Real.exp h - Real.exp 0) / h - Real.exp 0| ≤ Real.exp h * h / 2 :=
  fwd_diff_error (φ := Real.exp) (φ' := Real.exp) (φ'' := Real.exp) hh
    (fun s _ => (Real.hasDerivAt_exp s).hasDerivWithinAt) Real.continuous_exp.continuousOn
    (fun s _ => Real.hasDerivAt_exp s)
    (fun s hs => by rw [abs_of_pos (Real.exp_pos s)]; exact Real.exp_le_exp.mpr hs.2.le)

/-- `fd_numerical_smooth_entrywise` on the model, for a module that is NOT covered by `fd_numerical_quadratic`:
    `y = x³` at `x = 3` (reference response `27`, perturbed response `(3 + h)³`, seed `1`); true derivative `27`,
    `|∂²/∂s²| = 6(3 + s) ≤ 6(3 + h)`: the reported numerical value is within `6(3 + h)·h/2` of `27`. -/
example (h : ℝ) (hh : 0 < h) :
    |fdVal (realOps fun a : ℝ => |a|) false h ⟨Demo.y, false, .ones⟩ ⟨fun _ => 27, fun _ => 1, []⟩
        ⟨fun _ => (3 + h) ^ 3, fun _ => 0, fun _ => true, fun _ => false⟩ - 27| ≤ 6 * (3 + h) * h / 2 := by
  have key := fd_numerical_smooth_entrywise (fun a : ℝ => |a|) ⟨Demo.y, false, .ones⟩ ⟨fun _ => 27, fun _ => 1, []⟩
    ⟨fun _ => (3 + h) ^ 3, fun _ => 0, fun _ => true, fun _ => false⟩ h hh
    (fun s _ => (3 + s) ^ 3) (fun s _ => 3 * (3 + s) ^ 2) (fun s _ => 6 * (3 + s)) (fun _ => 6 * (3 + h))
    (fun m _ => by norm_num) (fun m _ => rfl)
    (fun m _ s _ => by
      have := (((hasDerivAt_id s).const_add (3:ℝ)).pow 3).hasDerivWithinAt (s := Set.Icc 0 h)
      refine this.congr_deriv ?_
      simp)
    (fun m _ => by fun_prop)
    (fun m _ s _ => by
      have := (((hasDerivAt_id s).const_add (3:ℝ)).pow 2).const_mul (3:ℝ)
      refine this.congr_deriv ?_
      simp; ring)
    (fun m _ s hs => by
      have h1 : 0 < 3 + s := by linarith [hs.1]
      rw [abs_of_pos (by positivity)]
      linarith [hs.2])
  have e : (3:ℝ) * 3 ^ 2 = 27 := by norm_num
  simpa [Demo.y, e] using key

end PymotoVerif.C19
