/-
C20 — Result files decode back to the data that was written.
Property theorems ONLY (helper lemmas live in `Lemmas/IO.lean`).

Model: `Core/IO.lean` (base64, `write_to_vti`, a parser of that file grammar, `WriteToVTI` file names,
`ScalarToFile` header / rows).  External: float64 → float32 rounding (the payload bytes are inputs of the
model), Python's number formatting (texts are inputs; contract `TokOK` / `SepFree`: no blank, quote,
separator or newline is emitted).
-/
import PymotoVerif.Lemmas.IO

namespace PymotoVerif.C20
open PymotoVerif PymotoVerif.Domain PymotoVerif.IO

/-! ## base64 -/

/-- decoding inverts `base64.b64encode` for EVERY byte list (lengths 0, 1, 2 mod 3 alike) -/
theorem b64_roundtrip (bs : Bytes) : b64decode (b64encode bs) = some bs :=
  b64decode_b64encode bs

/-- `len(b64encode(x)) = 4 * ceil(len(x) / 3)` -/
theorem b64_length (bs : Bytes) : (b64encode bs).length = 4 * ((bs.length + 2) / 3) :=
  b64encode_length bs

/-- the encoder is injective: two payloads with the same text are equal -/
theorem b64_injective (a b : Bytes) (h : b64encode a = b64encode b) : a = b := by
  have ha := b64_roundtrip a
  rw [h, b64_roundtrip b] at ha
  exact (Option.some.inj ha).symm

-- the three padding cases on concrete data ("M", "Ma", "Man" of RFC 4648)
example : b64encode [77] = bytes! "TQ==" ∧ b64decode (bytes! "TQ==") = some [77] := by decide
example : b64encode [77, 97] = bytes! "TWE=" ∧ b64decode (bytes! "TWE=") = some [77, 97] := by decide
example : b64encode [77, 97, 110] = bytes! "TWFu" ∧ b64decode (bytes! "TWFu") = some [77, 97, 110] := by decide

/-! ## the VTI file -/

/-- parsing the bytes of a written file gives back the document: byte order, extent, the three
    origin texts, the three spacing texts, and for the point and the cell section (present or absent)
    every array with its name, component count and raw payload bytes — for all documents whose
    number texts contain neither blank nor quote, whose names contain no quote and whose encoded
    blocks are shorter than 2^64 (otherwise `struct.pack` raises) -/
theorem vti_roundtrip (doc : Doc) (h : DocOK doc) : parseVti (renderVti doc) = some doc :=
  parseVti_renderVti doc h

example : DocOK exDoc := by decide
example : parseVti (renderVti exDoc) = some exDoc := vti_roundtrip exDoc (by decide)

/-- the renderer is injective on admissible documents: different data never give the same file -/
theorem vti_injective (a b : Doc) (ha : DocOK a) (hb : DocOK b) (h : renderVti a = renderVti b) : a = b := by
  have := vti_roundtrip a ha
  rw [h, vti_roundtrip b hb] at this
  exact (Option.some.inj this).symm

/-- the length prefix of a data block, as coded: base64 of the 8-byte length of the ENCODED block, and that
    length is `4 * ceil(4 * entries / 3)` for a payload of `entries` float32 -/
theorem vti_block_prefix (le : Bool) (a : Arr) (rest : Bytes) :
    ∃ pre, renderArr le a rest = pre ++ (b64encode (u64bytes le (4 * ((a.payload.length + 2) / 3)))
      ++ (b64encode a.payload ++ (litArrEnd ++ rest))) := by
  refine ⟨litArrA ++ (a.name ++ (34 :: (litArrB ++ (natDec a.ncomp ++ (34 :: litArrC))))), ?_⟩
  simp [renderArr, b64encode_length, b64len]

/-- classification by size: the element count is tested first, so under the explicit hypothesis that
    the size is not a multiple of both counts, a multiple of `nel` is cell data, a multiple of
    `nnodes` is point data, anything else is skipped -/
theorem vti_classification (d : Dom) (size : Nat) (hnot : ¬ (size % d.nel = 0 ∧ size % d.nnodes = 0)) :
    (size % d.nel = 0 → classify d size = .cell) ∧
    (size % d.nnodes = 0 → classify d size = .point) ∧
    (size % d.nel ≠ 0 → size % d.nnodes ≠ 0 → classify d size = .skip) := by
  unfold classify
  refine ⟨fun h => by simp [h], fun h => ?_, fun h1 h2 => by simp [h1, h2]⟩
  have : size % d.nel ≠ 0 := fun hc => hnot ⟨hc, h⟩
  simp [this, h]

-- 3×2 elements, 12 nodes: 6 is a multiple of nel only, 24 of both, 36 of both, 12 of both; 4×1: nel 4, nnodes 10
example : classify ⟨4, 1, 0⟩ 8 = .cell ∧ classify ⟨4, 1, 0⟩ 20 = .cell ∧ classify ⟨4, 1, 0⟩ 30 = .point
    ∧ classify ⟨4, 1, 0⟩ 7 = .skip := by decide

/-- an element-sized vector (1-D, `n` a multiple of `nel`) is written as one cell-data array with
    `n / nel` components whose payload is exactly the input bytes -/
theorem vti_cell_array (d : Dom) (v : Vec) (n : Nat) (hs : v.shape = [n]) (hc : n % d.nel = 0) :
    cellArrs d v = .ok [⟨v.name, n / d.nel, v.words.flatten⟩] := by
  simp [cellArrs, hs, firstAxis, hc]

/-- a node-sized vector (1-D, `n` a multiple of `nnodes`) is written as one point-data array with
    `n / nnodes` components and the input bytes — except two components in a 2-D domain, which become
    three components `(u, v, 0)` -/
theorem vti_point_array (d : Dom) (v : Vec) (n : Nat) (hs : v.shape = [n]) (hp : n % d.nnodes = 0) :
    pointArrs d v = .ok [⟨v.name, if n / d.nnodes = 2 ∧ d.dim = 2 then 3 else n / d.nnodes,
      (if n / d.nnodes = 2 ∧ d.dim = 2 then pad2d d.nnodes v.words else v.words).flatten⟩] := by
  by_cases hpad : n / d.nnodes = 2 ∧ d.dim = 2
  · simp [pointArrs, hs, firstAxis, hp, hpad]
  · simp [pointArrs, hs, firstAxis, hp, hpad]

/-- 2-D padding: entry `n` of the padded vector is `(u_n, v_n, 0)` -/
theorem vti_pad_2d (nnodes : Nat) (ws : List Bytes) :
    (pad2d nnodes ws).length = 3 * nnodes ∧
    ∀ n < nnodes, (pad2d nnodes ws).getD (3 * n) [] = word ws (2 * n) ∧
      (pad2d nnodes ws).getD (3 * n + 1) [] = word ws (2 * n + 1) ∧
      (pad2d nnodes ws).getD (3 * n + 2) [] = zeroWord :=
  ⟨pad2d_length nnodes ws, fun n h => pad2d_get nnodes ws n h⟩

example : pad2d 2 [[1, 0, 0, 0], [2, 0, 0, 0], [3, 0, 0, 0], [4, 0, 0, 0]]
    = [[1, 0, 0, 0], [2, 0, 0, 0], [0, 0, 0, 0], [3, 0, 0, 0], [4, 0, 0, 0], [0, 0, 0, 0]] := by decide

/-- in the written document an element-sized 1-D vector sits in the CELL section with `n / nel`
    components and exactly its input bytes (whatever else is written) -/
theorem vti_cell_data (d : Dom) (h : Hdr) (vs : List Vec) (r : VtiResult) (hr : buildDoc d h vs = .ok r)
    (v : Vec) (hv : v ∈ vs) (n : Nat) (hs : v.shape = [n]) (hc : n % d.nel = 0) :
    ∃ doc as, r.doc = some doc ∧ doc.cell = some as ∧ (⟨v.name, n / d.nel, v.words.flatten⟩ : Arr) ∈ as := by
  have hcl : classify d v.size = .cell := by simp [classify, size_1d v n hs, hc]
  have hmem : v ∈ cellsOf d vs := by simp [cellsOf, hv, hcl]
  have hne : (cellsOf d vs).isEmpty = false := by
    cases hh : cellsOf d vs with
    | nil => rw [hh] at hmem; simp at hmem
    | cons => rfl
  cases hdoc : r.doc with
  | none =>
    -- "nothing to write" is impossible: `v` is cell data
    have := (buildDoc_none d h vs r hr hdoc).2
    rw [hne] at this; cases this
  | some doc =>
    obtain ⟨_, _, _, hcell, _⟩ := buildDoc_ok d h vs r doc hr hdoc
    rw [hne] at hcell
    simp only [Bool.false_eq_true, if_false] at hcell
    obtain ⟨as, h1, h2⟩ := hcell
    obtain ⟨av, h3, h4⟩ := collect_ok_mem _ _ as h2 v hmem
    rw [vti_cell_array d v n hs hc] at h3
    cases h3
    exact ⟨doc, as, rfl, h1, h4 _ (by simp)⟩

/-- in the written document a node-sized 1-D vector whose size is NOT a multiple of `nel` sits in the POINT
    section with `n / nnodes` components and its input bytes; two components in a 2-D domain are written as
    three components `(u, v, 0)` -/
theorem vti_point_data (d : Dom) (h : Hdr) (vs : List Vec) (r : VtiResult) (hr : buildDoc d h vs = .ok r)
    (v : Vec) (hv : v ∈ vs) (n : Nat) (hs : v.shape = [n]) (hnc : n % d.nel ≠ 0) (hp : n % d.nnodes = 0) :
    ∃ doc as, r.doc = some doc ∧ doc.point = some as ∧
      (⟨v.name, if n / d.nnodes = 2 ∧ d.dim = 2 then 3 else n / d.nnodes,
        (if n / d.nnodes = 2 ∧ d.dim = 2 then pad2d d.nnodes v.words else v.words).flatten⟩ : Arr) ∈ as := by
  have hcl : classify d v.size = .point := by simp [classify, size_1d v n hs, hnc, hp]
  have hmem : v ∈ pointsOf d vs := by simp [pointsOf, hv, hcl]
  have hne : (pointsOf d vs).isEmpty = false := by
    cases hh : pointsOf d vs with
    | nil => rw [hh] at hmem; simp at hmem
    | cons => rfl
  cases hdoc : r.doc with
  | none =>
    have := (buildDoc_none d h vs r hr hdoc).1
    rw [hne] at this; cases this
  | some doc =>
    obtain ⟨_, _, hpoint, _, _⟩ := buildDoc_ok d h vs r doc hr hdoc
    rw [hne] at hpoint
    simp only [Bool.false_eq_true, if_false] at hpoint
    obtain ⟨as, h1, h2⟩ := hpoint
    obtain ⟨av, h3, h4⟩ := collect_ok_mem _ _ as h2 v hmem
    rw [vti_point_array d v n hs hp] at h3
    cases h3
    exact ⟨doc, as, rfl, h1, h4 _ (by simp)⟩

-- a concrete call (`exHdr`, `exVecs` of `Lemmas/IO.lean`): 3×1 elements, a density vector and a 2-D displacement vector
example : ∃ names file, writeVti ⟨3, 1, 0⟩ exHdr exVecs (bytes! "out") = .ok ([], some (names, file)) ∧
    names = bytes! "out.vti" := ⟨_, _, rfl, by decide⟩
example : (buildDoc ⟨3, 1, 0⟩ exHdr exVecs).toOption.isSome = true := by decide

/-- the bytes `write_to_vti` writes parse back to the document it built: extent of the domain, the
    header texts, and the classified arrays — for every input on which the code does not raise -/
theorem vti_written_file_roundtrip (d : Dom) (h : Hdr) (vs : List Vec) (fn name bytes : Bytes)
    (skipped : List Bytes) (hw : writeVti d h vs fn = .ok (skipped, some (name, bytes)))
    (hh : TokOK h.ox ∧ TokOK h.oy ∧ TokOK h.oz ∧ TokOK h.dx ∧ TokOK h.dy ∧ TokOK h.dz)
    (hn : ∀ v ∈ vs, (34 : UInt8) ∉ v.name) :
    ∃ doc, parseVti bytes = some doc ∧ name = vtiFilename fn ∧
      (doc.nelx, doc.nely, doc.nelz) = (d.nelx, d.nely, d.nelz) ∧
      (doc.ox, doc.oy, doc.oz, doc.dx, doc.dy, doc.dz) = (h.ox, h.oy, h.oz, h.dx, h.dy, h.dz) ∧
      (∃ r, buildDoc d h vs = .ok r ∧ r.doc = some doc) := by
  unfold writeVti at hw
  cases hb : buildDoc d h vs with
  | error e => simp [hb, bind, Except.bind] at hw
  | ok r =>
    simp only [hb, bind, Except.bind, Except.ok.injEq, Prod.mk.injEq] at hw
    obtain ⟨_, hw⟩ := hw
    cases hdoc : r.doc with
    | none => simp [hdoc] at hw
    | some doc =>
      simp only [hdoc, Option.map_some, Option.some.injEq, Prod.mk.injEq] at hw
      obtain ⟨h1, h2⟩ := hw
      have hok := buildDoc_docOK d h vs r doc hb hdoc hh hn
      obtain ⟨_, ⟨_, e1, e2, e3, e4, e5, e6, e7, e8, e9⟩, _⟩ := buildDoc_ok d h vs r doc hb hdoc
      refine ⟨doc, ?_, h1.symm, by rw [e1, e2, e3], by rw [e4, e5, e6, e7, e8, e9], r, rfl, hdoc⟩
      rw [← h2]
      exact vti_roundtrip doc hok

/-! ## block vectors -/

/-- CELL data, a block of several vectors, both orientations of the 2-D array `(r, c)` (C order):
    * `r` a multiple of `nel` : the `c` columns `vec[:, i]` are the vectors;
    * otherwise, `c` a multiple of `nel` : the `r` rows `vec[i, :]` are the vectors.
    Array `name(i)` holds exactly column / row `i` of the input, with `len / nel` components. -/
theorem vti_block_columns (d : Dom) (v : Vec) (r c : Nat) (hs : v.shape = [r, c]) :
    (r % d.nel = 0 → c > 1 → cellArrs d v = .ok ((List.range c).map fun i =>
        ⟨v.name ++ (40 :: (natDec i ++ [41])), r / d.nel, ((List.range r).map fun k => word v.words (k * c + i)).flatten⟩)) ∧
    (r % d.nel ≠ 0 → c % d.nel = 0 → r > 1 → cellArrs d v = .ok ((List.range r).map fun i =>
        ⟨v.name ++ (40 :: (natDec i ++ [41])), c / d.nel, ((List.range c).map fun k => word v.words (i * c + k)).flatten⟩)) := by
  constructor
  · intro h1 h2
    simp [cellArrs, hs, firstAxis, h1, column, h2]
  · intro h1 h2 h3
    simp [cellArrs, hs, firstAxis, h1, h2, column, h3]

/-- POINT data, the same two orientations; names are zero-padded (`name(07)`), and a block of 2-component vectors
    in a 2-D domain is padded column by column to three components `(u, v, 0)` -/
theorem vti_block_columns_point (d : Dom) (v : Vec) (r c : Nat) (hs : v.shape = [r, c]) :
    (r % d.nnodes = 0 → c > 1 → pointArrs d v = .ok ((List.range c).map fun i =>
        ⟨v.name ++ (40 :: (natDecPad (ceilLog10 c) i ++ [41])),
         if r / d.nnodes = 2 ∧ d.dim = 2 then 3 else r / d.nnodes,
         (if r / d.nnodes = 2 ∧ d.dim = 2 then pad2d d.nnodes ((List.range r).map fun k => word v.words (k * c + i))
          else (List.range r).map fun k => word v.words (k * c + i)).flatten⟩)) ∧
    (r % d.nnodes ≠ 0 → c % d.nnodes = 0 → r > 1 → pointArrs d v = .ok ((List.range r).map fun i =>
        ⟨v.name ++ (40 :: (natDecPad (ceilLog10 r) i ++ [41])),
         if c / d.nnodes = 2 ∧ d.dim = 2 then 3 else c / d.nnodes,
         (if c / d.nnodes = 2 ∧ d.dim = 2 then pad2d d.nnodes ((List.range c).map fun k => word v.words (i * c + k))
          else (List.range c).map fun k => word v.words (i * c + k)).flatten⟩)) := by
  constructor
  · intro h1 h2
    simp [pointArrs, hs, firstAxis, h1, column, h2]
  · intro h1 h2 h3
    simp [pointArrs, hs, firstAxis, h1, h2, column, h3]

/-- a block holding ONE nodal vector (`(n, 1)` or `(1, n)`) is written under the plain key like the 1-D vector —
    also with the 2-D padding once the repair `c20_single_block_pad.patch` is in (`singleBlockPadRepaired`);
    in the unrepaired tree exactly the padded case raises ValueError (see `Core/IO.lean`) -/
theorem vti_single_block (d : Dom) (v : Vec) (r c : Nat) (hs : v.shape = [r, c])
    (hax : (r % d.nnodes = 0 ∧ c = 1) ∨ (r % d.nnodes ≠ 0 ∧ c % d.nnodes = 0 ∧ r = 1))
    (hfix : singleBlockPadRepaired = true ∨ ¬ ((r * c) / d.nnodes = 2 ∧ d.dim = 2)) :
    pointArrs d v = .ok [⟨v.name, if (r * c) / d.nnodes = 2 ∧ d.dim = 2 then 3 else (r * c) / d.nnodes,
      (if (r * c) / d.nnodes = 2 ∧ d.dim = 2 then pad2d d.nnodes v.words else v.words).flatten⟩] := by
  rcases hax with ⟨h1, rfl⟩ | ⟨h1, h2, rfl⟩
  · rcases hfix with hf | hf
    · by_cases hp : (r * 1) / d.nnodes = 2 ∧ d.dim = 2
      · have hp' : r / d.nnodes = 2 ∧ d.dim = 2 := by simpa using hp
        simp [pointArrs, hs, firstAxis, h1, hf, hp']
      · have hp' : ¬ (r / d.nnodes = 2 ∧ d.dim = 2) := by simpa using hp
        simp [pointArrs, hs, firstAxis, h1, hp']
    · have hp' : ¬ (r / d.nnodes = 2 ∧ d.dim = 2) := by simpa using hf
      simp [pointArrs, hs, firstAxis, h1, hp']
  · rcases hfix with hf | hf
    · by_cases hp : (1 * c) / d.nnodes = 2 ∧ d.dim = 2
      · have hp' : c / d.nnodes = 2 ∧ d.dim = 2 := by simpa using hp
        simp [pointArrs, hs, firstAxis, h1, h2, hf, hp']
      · have hp' : ¬ (c / d.nnodes = 2 ∧ d.dim = 2) := by simpa using hp
        simp [pointArrs, hs, firstAxis, h1, h2, hp']
    · have hp' : ¬ (c / d.nnodes = 2 ∧ d.dim = 2) := by simpa using hf
      simp [pointArrs, hs, firstAxis, h1, h2, hp']

/-- every array a classified vector contributes (1-D or block) is in the section of the written document -/
theorem vti_cell_arrays_written (d : Dom) (h : Hdr) (vs : List Vec) (r : VtiResult) (hr : buildDoc d h vs = .ok r)
    (v : Vec) (hv : v ∈ vs) (hcl : classify d v.size = .cell) :
    ∃ doc as av, r.doc = some doc ∧ doc.cell = some as ∧ cellArrs d v = .ok av ∧ ∀ a ∈ av, a ∈ as := by
  have hmem : v ∈ cellsOf d vs := by simp [cellsOf, hv, hcl]
  have hne : (cellsOf d vs).isEmpty = false := by
    cases hh : cellsOf d vs with
    | nil => rw [hh] at hmem; simp at hmem
    | cons => rfl
  cases hdoc : r.doc with
  | none =>
    have := (buildDoc_none d h vs r hr hdoc).2
    rw [hne] at this; cases this
  | some doc =>
    obtain ⟨_, _, _, hcell, _⟩ := buildDoc_ok d h vs r doc hr hdoc
    rw [hne] at hcell
    simp only [Bool.false_eq_true, if_false] at hcell
    obtain ⟨as, h1, h2⟩ := hcell
    obtain ⟨av, h3, h4⟩ := collect_ok_mem _ _ as h2 v hmem
    exact ⟨doc, as, av, rfl, h1, h3, h4⟩

theorem vti_point_arrays_written (d : Dom) (h : Hdr) (vs : List Vec) (r : VtiResult) (hr : buildDoc d h vs = .ok r)
    (v : Vec) (hv : v ∈ vs) (hcl : classify d v.size = .point) :
    ∃ doc as av, r.doc = some doc ∧ doc.point = some as ∧ pointArrs d v = .ok av ∧ ∀ a ∈ av, a ∈ as := by
  have hmem : v ∈ pointsOf d vs := by simp [pointsOf, hv, hcl]
  have hne : (pointsOf d vs).isEmpty = false := by
    cases hh : pointsOf d vs with
    | nil => rw [hh] at hmem; simp at hmem
    | cons => rfl
  cases hdoc : r.doc with
  | none =>
    have := (buildDoc_none d h vs r hr hdoc).1
    rw [hne] at this; cases this
  | some doc =>
    obtain ⟨_, _, hcell, _, _⟩ := buildDoc_ok d h vs r doc hr hdoc
    rw [hne] at hcell
    simp only [Bool.false_eq_true, if_false] at hcell
    obtain ⟨as, h1, h2⟩ := hcell
    obtain ⟨av, h3, h4⟩ := collect_ok_mem _ _ as h2 v hmem
    exact ⟨doc, as, av, rfl, h1, h3, h4⟩

-- 2×2 elements (nel 4): a (2, 4) block holds two vectors as ROWS, a (4, 3) block three vectors as COLUMNS
example : cellArrs ⟨2, 2, 0⟩ ⟨bytes! "s", [2, 4], (List.range 8).map fun i => [i.toUInt8, 0, 0, 0]⟩
    = .ok [⟨bytes! "s(0)", 1, [0, 0, 0, 0, 1, 0, 0, 0, 2, 0, 0, 0, 3, 0, 0, 0]⟩,
           ⟨bytes! "s(1)", 1, [4, 0, 0, 0, 5, 0, 0, 0, 6, 0, 0, 0, 7, 0, 0, 0]⟩] := by rfl
example : cellArrs ⟨2, 2, 0⟩ ⟨bytes! "s", [4, 3], (List.range 12).map fun i => [i.toUInt8, 0, 0, 0]⟩
    = .ok [⟨bytes! "s(0)", 1, [0, 0, 0, 0, 3, 0, 0, 0, 6, 0, 0, 0, 9, 0, 0, 0]⟩,
           ⟨bytes! "s(1)", 1, [1, 0, 0, 0, 4, 0, 0, 0, 7, 0, 0, 0, 10, 0, 0, 0]⟩,
           ⟨bytes! "s(2)", 1, [2, 0, 0, 0, 5, 0, 0, 0, 8, 0, 0, 0, 11, 0, 0, 0]⟩] := by rfl

/-! ## header numbers and file names -/

/-- the numbers of the header parse back: for ANY number formatter / parser pair satisfying the contract
    (`parse (fmt x) = x`, and `fmt` emits neither blank nor quote), the file of a document whose origin and
    spacing texts are `fmt` of six numbers parses to a document from which `parse` recovers these numbers,
    and the extent is the domain's -/
theorem vti_header_numbers {α : Type} (fmt : α → Bytes) (parse : Bytes → Option α)
    (hrt : ∀ x, parse (fmt x) = some x) (hok : ∀ x, TokOK (fmt x))
    (doc : Doc) (o1 o2 o3 s1 s2 s3 : α)
    (ho : doc.ox = fmt o1 ∧ doc.oy = fmt o2 ∧ doc.oz = fmt o3) (hsp : doc.dx = fmt s1 ∧ doc.dy = fmt s2 ∧ doc.dz = fmt s3)
    (hp : ∀ a ∈ doc.point.getD [], ArrOK a) (hc : ∀ a ∈ doc.cell.getD [], ArrOK a) :
    ∃ doc', parseVti (renderVti doc) = some doc' ∧
      (doc'.nelx, doc'.nely, doc'.nelz) = (doc.nelx, doc.nely, doc.nelz) ∧
      (parse doc'.ox, parse doc'.oy, parse doc'.oz) = (some o1, some o2, some o3) ∧
      (parse doc'.dx, parse doc'.dy, parse doc'.dz) = (some s1, some s2, some s3) := by
  obtain ⟨a1, a2, a3⟩ := ho
  obtain ⟨b1, b2, b3⟩ := hsp
  have hd : DocOK doc := ⟨a1 ▸ hok o1, a2 ▸ hok o2, a3 ▸ hok o3, b1 ▸ hok s1, b2 ▸ hok s2, b3 ▸ hok s3, hp, hc⟩
  refine ⟨doc, vti_roundtrip doc hd, rfl, ?_, ?_⟩
  · rw [a1, a2, a3, hrt, hrt, hrt]
  · rw [b1, b2, b3, hrt, hrt, hrt]

/-- `WriteToVTI`, numbered mode: different iterations get different file names — both the name `WriteToVTI`
    computes and the name `write_to_vti` finally opens (after its `.vti` rule) -/
theorem vti_iteration_names_distinct (saveto : Bytes) (i j : Nat) :
    (iterName saveto false i = iterName saveto false j → i = j) ∧
    (vtiFilename (iterName saveto false i) = vtiFilename (iterName saveto false j) → i = j) :=
  ⟨iterName_inj saveto i j, finalName_inj saveto i j⟩

/-- overwrite mode: one and the same name in every iteration, namely `saveto` put together again -/
theorem vti_overwrite_one_name (saveto : Bytes) (i j : Nat) :
    iterName saveto true i = iterName saveto true j ∧
    iterName saveto true i = (splitext saveto).1 ++ (splitext saveto).2 := ⟨rfl, rfl⟩

example : iterName (bytes! "run/out.vti") false 7 = bytes! "run/out.0007.vti"
    ∧ iterName (bytes! "run/out.vti") false 12345 = bytes! "run/out.12345.vti"
    ∧ iterName (bytes! "run/out.vti") true 7 = bytes! "run/out.vti"
    ∧ vtiFilename (iterName (bytes! "res") false 3) = bytes! "res.0003.vti" := by decide

/-! ## the log of `ScalarToFile` -/

/-- splitting a joined row at the separator gives back the tokens, under the contract of the number
    formatter (`SepFree`: inside `token ++ sep` the separator occurs only at the end) -/
theorem scalarfile_split_join (sep : Bytes) (hsep : sep ≠ []) (toks : List Bytes) (hne : toks ≠ [])
    (h : ∀ t ∈ toks, SepFree sep t) : splitOn sep (joinSep sep toks) = toks :=
  splitOn_joinSep sep hsep toks hne h

/-- for a one-byte separator (tab, comma, …) the contract is simply "the byte is not emitted" -/
theorem scalarfile_split_join_byte (d : UInt8) (toks : List Bytes) (hne : toks ≠ [])
    (h : ∀ t ∈ toks, d ∉ t) : splitOn [d] (joinSep [d] toks) = toks :=
  splitOn_joinSep [d] (by simp) toks hne (fun t ht => sepFree_single d t (h t ht))

example : splitOn (bytes! ", ") (joinSep (bytes! ", ") [bytes! "0", bytes! "1.5e+00", bytes! "-inf"])
    = [bytes! "0", bytes! "1.5e+00", bytes! "-inf"] := by decide

/-- label and value of a column stay paired: each column an array state contributes is `tag[idx]` together with
    the text of `state[idx]` for one and the same multi-index `idx` (of the right rank), one column per entry -/
theorem scalarfile_label_value_paired (fe : Bool) (s : LogSig) (sh : List Nat) (hs : s.shape = some sh)
    (hsize : sh.foldl (· * ·) 1 > 1) (cols : List (Bytes × Bytes)) (h : sigColumns fe s = .ok cols) :
    cols.length = sh.foldl (· * ·) 1 ∧
    ∀ c ∈ cols, ∃ idx : List Nat, idx.length = sh.length ∧
      c = (indexTag s.tag idx, s.toks.getD (flatIndex sh idx) []) := by
  have hl : ∀ (l : List Nat) (k : Nat), (multiIndex l k).length = l.length := by
    intro l
    induction l with
    | nil => intro k; rfl
    | cons a as ih => intro k; simp [multiIndex, ih]
  unfold sigColumns at h
  simp only [hs, hsize, if_true, Except.ok.injEq] at h
  subst h
  refine ⟨by simp, ?_⟩
  intro c hc
  simp only [List.mem_map, List.mem_range] at hc
  obtain ⟨k, _, rfl⟩ := hc
  exact ⟨multiIndex sh k, hl sh k, rfl⟩

/-- the memory layout of a state (C, Fortran, transposed, permuted, strided, reversed axes) is irrelevant:
    labels, values, their order and the error behaviour do not depend on `perm` / `flip` -/
theorem scalarfile_layout_irrelevant (fe : Bool) (s : LogSig) (perm : List Nat) (flip : List Bool) :
    sigColumns fe { s with perm := perm, flip := flip } = sigColumns fe s := rfl

/-- hence two histories that differ only in the layouts of their states write the same file -/
theorem scalarfile_layout_irrelevant_step (sep : Bytes) (fe : Bool) (st : LogState) (sigs : List LogSig)
    (lay : LogSig → List Nat × List Bool) :
    logStep sep fe st (sigs.map fun s => { s with perm := (lay s).1, flip := (lay s).2 }) = logStep sep fe st sigs := by
  have h : ∀ l : List LogSig, allColumns fe (l.map fun s => { s with perm := (lay s).1, flip := (lay s).2 })
      = allColumns fe l := by
    intro l
    induction l with
    | nil => rfl
    | cons s ss ih =>
      simp only [List.map_cons, allColumns, ih]
      rfl
  simp only [logStep, h]

-- a transposed 2×3 view (memory order: axis 1 slowest, axis 0 fastest) is logged in C index order, every label
-- with the value of its own index (`toks` is indexed by the logical C-order position)
example : sigColumns false ⟨bytes! "B", some [2, 3], [bytes! "a00", bytes! "a01", bytes! "a02", bytes! "a10", bytes! "a11", bytes! "a12"], [1, 0], [false, false]⟩
    = .ok [(bytes! "B[0, 0]", bytes! "a00"), (bytes! "B[0, 1]", bytes! "a01"), (bytes! "B[0, 2]", bytes! "a02"),
           (bytes! "B[1, 0]", bytes! "a10"), (bytes! "B[1, 1]", bytes! "a11"), (bytes! "B[1, 2]", bytes! "a12")] := by rfl

/-- the file after a history of `c :: cs` successful calls starting from a fresh module (iteration 0,
    whatever was in the file before): exactly one header line (`Iteration` and the tags of the first
    call) followed by one row per call, the iteration counter advanced by the number of calls -/
theorem scalarfile_file (sep : Bytes) (f0 : Option Bytes) (c : List Bytes × List Bytes)
    (cs : List (List Bytes × List Bytes)) :
    logRun sep ⟨0, f0⟩ (c :: cs) =
      ⟨(c :: cs).length, some (renderLog sep ((litIteration :: c.1) :: rowsFrom 0 (c :: cs)))⟩ :=
  logRun_zero sep f0 c cs

/-- row `i` is the decimal iteration number `i` followed by the value texts of call `i`, and the
    number parses back -/
theorem scalarfile_rows (calls : List (List Bytes × List Bytes)) (i : Nat) (hi : i < calls.length) :
    (rowsFrom 0 calls)[i]'(by rw [rowsFrom_length]; exact hi) = natDec i :: calls[i].2 ∧
    parseDec (natDec i) = some i := by
  refine ⟨?_, parseDec_natDec i⟩
  have := rowsFrom_getElem 0 calls i hi
  simpa using this

/-- the log parses back: header once, then one row per call whose columns are the iteration number
    and the logged value texts — under the contract that no text (tags, numbers, iteration numbers)
    contains the separator (in the sense of `SepFree`) or a newline, and the separator is non-empty
    and contains no newline -/
theorem scalarfile_roundtrip (sep : Bytes) (hsep : sep ≠ []) (hnl : (10 : UInt8) ∉ sep)
    (f0 : Option Bytes) (c : List Bytes × List Bytes) (cs : List (List Bytes × List Bytes))
    (h : ∀ l ∈ (litIteration :: c.1) :: rowsFrom 0 (c :: cs), ∀ t ∈ l, SepFree sep t ∧ (10 : UInt8) ∉ t) :
    parseLog sep ((logRun sep ⟨0, f0⟩ (c :: cs)).file.getD []) =
      some ((litIteration :: c.1) :: rowsFrom 0 (c :: cs)) := by
  rw [logRun_zero]
  simp only [Option.getD_some]
  apply parseLog_renderLog sep hsep hnl _ _ h
  intro l hl
  rcases List.mem_cons.mp hl with e | hm
  · rw [e]; simp
  · -- every row starts with the iteration number
    have : ∀ k (calls : List (List Bytes × List Bytes)), ∀ l ∈ rowsFrom k calls, l ≠ [] := by
      intro k calls
      induction calls generalizing k with
      | nil => simp [rowsFrom]
      | cons c cs ih =>
        intro l hl
        simp only [rowsFrom, List.mem_cons] at hl
        rcases hl with e | hm
        · rw [e]; simp
        · exact ih (k + 1) l hm
    exact this 0 _ l hm

/-- the logged values parse back: for any formatter / parser pair with `parse (fmt x) = x`, row `i` is the
    iteration number `i` followed by the texts of the values of call `i`, and parsing these texts gives the values -/
theorem scalarfile_values_parse_back {α : Type} (fmt : α → Bytes) (parse : Bytes → Option α)
    (hrt : ∀ x, parse (fmt x) = some x) (calls : List (List Bytes × List α)) (i : Nat) (hi : i < calls.length) :
    (rowsFrom 0 (calls.map fun c => (c.1, c.2.map fmt)))[i]'(by rw [rowsFrom_length]; simpa using hi)
        = natDec i :: (calls[i].2.map fmt) ∧
      parseDec (natDec i) = some i ∧
      (calls[i].2.map fmt).map parse = calls[i].2.map some := by
  obtain ⟨h1, h2⟩ := scalarfile_rows (calls.map fun c => (c.1, c.2.map fmt)) i (by simpa using hi)
  refine ⟨by simpa using h1, h2, ?_⟩
  rw [List.map_map]
  exact List.map_congr_left (fun a _ => hrt a)

/-- the contract is satisfiable: tab-separated, two calls, an old file is replaced -/
example : parseLog [9] ((logRun [9] ⟨0, some (bytes! "old")⟩
      [([bytes! "f", bytes! "g[0]"], [bytes! "1.0e+00", bytes! "nan"]),
       ([bytes! "f", bytes! "g[0]"], [bytes! "2.5e-01", bytes! "-3"])]).file.getD [])
    = some [[bytes! "Iteration", bytes! "f", bytes! "g[0]"], [bytes! "0", bytes! "1.0e+00", bytes! "nan"],
            [bytes! "1", bytes! "2.5e-01", bytes! "-3"]] := by decide

end PymotoVerif.C20
