#!/bin/bash
# run once after a fresh restore (offline): build the Lean library, install sympy into /verif/.deps
set -e
HERE="$(cd "$(dirname "${BASH_SOURCE[0]}")" && pwd)"
cd "$HERE/lean"
lake build PymotoVerif 2>&1 | tail -5
cd "$HERE"
if [ ! -d "$HERE/.deps/sympy" ]; then
  /venv/bin/python -m pip install --quiet --no-index --find-links /opt/veriftools/wheels --target "$HERE/.deps" sympy mpmath 2>&1 | tail -3 || true
fi
echo setup done
