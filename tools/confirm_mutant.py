#!/usr/bin/env python3
"""tools/confirm_mutant.py <id> <Cxx> <patch.diff> <demo.py> <needs-text-file-or-string>
Confirms a seeded change in a scratch worktree (outside /repo and /verif): demo passes on the unchanged tree, fails with the
change, every stable_pass test of the baseline still passes with the change. Writes /verif/seeded/<id>/{patch.diff,demo.py,meta.json}
and removes the worktree."""
import json, os, shutil, subprocess, sys, xml.etree.ElementTree as ET
mid = sys.argv[1]
if len(sys.argv) >= 6:
    prop, patch, demo, needs = sys.argv[2:6]
else:  # files already under /verif/seeded/<id>/
    _m = json.load(open(f"/verif/seeded/{mid}/meta.json"))
    prop, patch, demo, needs = _m["property"], f"/verif/seeded/{mid}/patch.diff", f"/verif/seeded/{mid}/demo.py", _m.get("needs", "")
patch, demo = os.path.abspath(patch), os.path.abspath(demo)
wt = f"/tmp/confirm_{mid}"
env = dict(os.environ, OMP_NUM_THREADS="1", OPENBLAS_NUM_THREADS="1", MKL_NUM_THREADS="1", PYTHONDONTWRITEBYTECODE="1")
def run(cmd, **kw):
    return subprocess.run(cmd, shell=True, capture_output=True, text=True, env=env, **kw)
run(f"git -C /repo worktree remove --force {wt}")
r = run(f"git -C /repo worktree add --detach {wt} HEAD")
assert r.returncode == 0, r.stderr
out = {"id": mid, "property": prop, "needs": open(needs).read() if os.path.exists(needs) else needs}
try:
    e2 = dict(env, PYTHONPATH=wt)
    r0 = subprocess.run(["/venv/bin/python", demo], cwd=wt, env=e2, capture_output=True, text=True, timeout=1800)
    out["demo_unchanged_rc"] = r0.returncode
    r = run(f"git apply {patch}", cwd=wt)
    assert r.returncode == 0, "patch does not apply: " + r.stderr
    r1 = subprocess.run(["/venv/bin/python", demo], cwd=wt, env=e2, capture_output=True, text=True, timeout=1800)
    out["demo_changed_rc"] = r1.returncode
    out["demo_changed_tail"] = (r1.stdout + r1.stderr)[-800:]
    jx = f"/tmp/confirm_{mid}.xml"
    t = subprocess.run(f"/venv/bin/python -m pytest -q -p no:cacheprovider --timeout=1800 --continue-on-collection-errors --junitxml={jx} > /tmp/confirm_{mid}.log 2>&1",
                       shell=True, cwd=wt, env=env)
    base = json.load(open('/root/.vp/BASELINE.json'))
    res = {}
    for tc in ET.parse(jx).iter('testcase'):
        name = f"{tc.get('classname')}::{tc.get('name')}"
        bad = any(c.tag in ('failure', 'error') for c in tc)
        sk = any(c.tag == 'skipped' for c in tc)
        res[name] = 'fail' if bad else ('skip' if sk else 'pass')
    missing = [n for n in base['stable_pass'] if res.get(n) != 'pass']
    # a test that fails once is re-run on its own (ARPACK start vectors are random: known flaky eigen tests)
    still = []
    for n in missing:
        mod, _, tn = n.partition("::")
        nodeid = mod.replace(".", "/") + ".py::" + tn
        ok = 0
        for _ in range(3):
            rr = subprocess.run(["/venv/bin/python", "-m", "pytest", "-q", "-p", "no:cacheprovider", nodeid], cwd=wt, env=env,
                                capture_output=True, text=True)
            ok += rr.returncode == 0
        if ok < 3:
            still.append(n)
    out["flaky_rerun_passed"] = [n for n in missing if n not in still]
    missing = still
    out["stable_pass_total"] = len(base['stable_pass'])
    out["stable_pass_not_passing_with_change"] = missing
    out["confirmed"] = (r0.returncode == 0 and r1.returncode != 0 and not missing)
    out["ran"] = ["demo on a scratch worktree of /repo HEAD (unchanged): rc %d" % r0.returncode,
                  "demo with the change applied: rc %d" % r1.returncode,
                  "full pytest suite with the change applied, compared with BASELINE.json stable_pass: %d not passing" % len(missing)]
    os.remove(jx)
finally:
    run(f"git -C /repo worktree remove --force {wt}")
d = f"/verif/seeded/{mid}"
os.makedirs(d, exist_ok=True)
if os.path.abspath(patch) != os.path.abspath(f"{d}/patch.diff"):
    shutil.copy(patch, f"{d}/patch.diff"); shutil.copy(demo, f"{d}/demo.py")
meta_path = f"{d}/meta.json"
old = json.load(open(meta_path)) if os.path.exists(meta_path) else {}
old.update(out)
json.dump(old, open(meta_path, "w"), indent=1)
print(mid, "confirmed" if out.get("confirmed") else "NOT CONFIRMED", out.get("stable_pass_not_passing_with_change"))
