#!/bin/bash
# tools/eval_all_seeds.sh "0 1 2" [Cxx ...]: evaluates every seeded change (of the given properties, default all) at the given seeds
# (per property sequentially, properties in parallel) and records the verdicts in seeded/<id>/seeds.json
cd /verif
SEEDS=${1:-"0 1 2"}; shift
PROPS=${@:-$(ls seeded | sed 's/-.*//' | sort -u)}
export SEEDS
echo $PROPS | tr ' ' '\n' | xargs -P 5 -I{} bash -c '
for id in $(ls seeded | grep "^{}-"); do
  for sd in $SEEDS; do
    out=$(VERIF_SEED=$sd python3 tools/eval_seeded.py $id 2>&1 | tail -1)
    echo "$sd $out"
    python3 tools/record_seed.py "$id" "$sd" "$out"
  done
done'
