#!/bin/bash
# tools/eval_all_seeds.sh "0 1 2": evaluates every seeded change at the given seeds (per property sequentially, properties in
# parallel) and writes seeded/<id>/seeds.json {seed: rc/kind}; the last seed's verdict stays in meta.json
cd /verif
SEEDS=${1:-"0 1 2"}
ls seeded | sed 's/-.*//' | sort -u | xargs -P 5 -I{} sh -c '
for id in $(ls seeded | grep "^{}-"); do
  for sd in '"$SEEDS"'; do
    out=$(VERIF_SEED=$sd python3 tools/eval_seeded.py $id 2>&1 | tail -1)
    echo "$sd $out"
    python3 - "$id" "$sd" "$out" <<PY
import json, sys, os
i, sd, out = sys.argv[1:4]
p = f"/verif/seeded/{i}/seeds.json"
d = json.load(open(p)) if os.path.exists(p) else {}
d[sd] = ("caught: failing input" if ("rc 1" in out and "no-failing-input-found" not in out) else
         "caught: no-failing-input-found" if "rc 1" in out else "MISSED")
json.dump(d, open(p, "w"), indent=1, sort_keys=True)
PY
  done
done'
