#!/usr/bin/env python3
"""tools/eval_seeded.py <id> [extra Cxx ...] : apply seeded/<id>/patch.diff to /repo, run the quick check of its property
(and of the extra properties), record the verdicts in seeded/<id>/meta.json, revert /repo."""
import json, os, subprocess, sys
mid = sys.argv[1]
d = f"/verif/seeded/{mid}"
meta = json.load(open(f"{d}/meta.json"))
props = [meta["property"]] + sys.argv[2:]
def sh(cmd, **kw):
    return subprocess.run(cmd, shell=True, capture_output=True, text=True, **kw)
# the change is applied in a scratch worktree (outside /repo and /verif) and the checks are pointed at it through PYMOTO_REPO,
# so that other work running against /repo is not disturbed
wt = f"/tmp/eval_{mid}"
sh(f"git -C /repo worktree remove --force {wt}")
r = sh(f"git -C /repo worktree add --detach {wt} HEAD")
if r.returncode != 0:
    sys.exit("cannot create worktree: " + r.stderr)
r = sh(f"git -C {wt} apply {d}/patch.diff")
if r.returncode != 0:
    sh(f"git -C /repo worktree remove --force {wt}")
    sys.exit("patch does not apply: " + r.stderr)
try:
    env = dict(os.environ, VERIF_SEED=os.environ.get("VERIF_SEED", "0"), PYMOTO_REPO=wt,
               VERIF_EVIDENCE_DIR=os.path.join(os.path.dirname(os.path.dirname(os.path.abspath(__file__))), "replays", "evidence-seeded"))
    meta.setdefault("detection", {})
    dm = subprocess.run(["/venv/bin/python", f"{d}/demo.py"], cwd=wt, capture_output=True, text=True,
                        env=dict(os.environ, PYTHONPATH=wt, OMP_NUM_THREADS="1"), timeout=1800)
    meta["demo_rc_on_current_head_with_change"] = dm.returncode
    for p in props:
        c = subprocess.run(["./check", p, "--tier", "quick"], cwd="/verif", capture_output=True, text=True, env=env)
        lines = [l for l in c.stdout.split("\n") if "VIOLATION" in l or "correspondence:" in l]
        replay = None
        for l in lines:
            if "replay=" in l:
                rp = l.split("replay=")[1].split()[0]
                try:
                    rj = json.load(open(os.path.join("/verif", rp)))
                    w = rj.get("witness") or {}
                    replay = {"kind": rj.get("kind"), "what": (w.get("what") or "")[:400]}
                except Exception:
                    pass
        meta["detection"][p] = {"rc": c.returncode, "lines": lines, "witness": replay, "seed": env["VERIF_SEED"]}
        print(mid, p, "rc", c.returncode, lines[-1][:200] if lines else "")
finally:
    sh(f"git -C /repo worktree remove --force {wt}")
json.dump(meta, open(f"{d}/meta.json", "w"), indent=1)
