#!/usr/bin/env python3
"""records the AST fingerprints of the modelled source files of /repo HEAD's working tree in source_fingerprints.json
(run after every `fix:` commit in /repo, once the models have been re-validated against it)"""
import json, os, subprocess, sys
sys.path.insert(0, os.path.dirname(os.path.dirname(os.path.abspath(__file__))))
from harness import fingerprint, common
files = sorted({f for l in open(os.path.join(common.VERIF, "properties.jsonl")) for f in fingerprint.files_of(json.loads(l)["id"])})
rev = subprocess.run(["git", "-C", common.REPO, "rev-parse", "HEAD"], capture_output=True, text=True).stdout.strip()
json.dump({"repo_revision": rev, "files": fingerprint.current(files)}, open(fingerprint.BASELINE, "w"), indent=1, sort_keys=True)
print(len(files), "files,", sum(len(v) for v in fingerprint.current(files).values()), "units at", rev)
