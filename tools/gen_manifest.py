#!/usr/bin/env python3
"""regenerates /verif/MANIFEST.json from the table below (kept in one place so it stays valid)"""
import json, os
HERE = os.path.dirname(os.path.dirname(os.path.abspath(__file__)))

NOTE_COMMON = ("Trusted: Lean 4.33 kernel + Mathlib v4.33 (axioms propext, Classical.choice, Quot.sound only; audited each run); "
               "the hand-written model is tied to /repo by the correspondence run (differential, bounded, seeded) of the same check; "
               "numpy/scipy semantics and IEEE rounding are modelled by exact arithmetic + tolerance. ")

CHECKS = {
    "C13": dict(
        text="Lean theorems for every grid size / element size / point: element and node numbering are bijections, "
             "the constructor's connectivity table lists the 2^dim corners in the documented order (distinct, in range), "
             "dof connectivity expands per dof, node positions, shape functions: partition of unity, Kronecker, non-negativity, "
             "derivative = gradient (affine identity), zero-sum and linear completeness. Model tied to domain.py by exact "
             "correspondence on exhaustive small grids + random large grids and on dyadic/float evaluation points.",
        ref="§5 C13", technique="Lean 4 proof (mixed-radix arithmetic, field identities) + exact model/implementation correspondence",
        note=NOTE_COMMON + "1-D domains are outside the property."),
    "C02": dict(
        text="Lean theorems about the executable dispatch model (Core/Network.lean: Module.response/sensitivity/reset, Network order, "
             "skip rule, add_sensitivity per input, slices, nesting): the model's reverse sweep IS the back-chain of the linearised "
             "modules (sensitivity_is_backChain); under single assignment every source entry receives exactly the transposed-Jacobian "
             "chain (backprop_is_transpose / total_derivative / paths_summed_once), unseeded branches contribute nothing, nested = flattened; "
             "each module kind's adjoint is its transposed Jacobian and the Jacobian is the exact derivative. Model tied to core_objects.py by "
             "exact correspondence on random DAG programs (int64) after every operation; oracle: exact dual-number derivative of the real network.",
        ref="§5 C02", technique="Lean 4 proof (induction over the module list, big-operator algebra) + exact correspondence + exact-derivative oracle",
        note=NOTE_COMMON + "The chain rule for the COMPOSED response (fwdChain is the derivative of Prog.response) is not a theorem; it is checked by the dual-number oracle on the real code on every run."),
    "C03": dict(
        text="Generic Lean theorem over a caching-component model (Core/Component.lean): if under a cache invariant outputs and sensitivities are functions "
             "of current inputs/seeds only (HistFree), every protocol-respecting history over {set,response,seed,sensitivity,reset} refines the cache-free "
             "specification, hence the cycle after reset equals a fresh component (history_independent); reset leaves nothing; sensitivity without seed is a no-op. "
             "Instances: stateless, overwrite-cache, previous-solution-as-guess with unique solution. The step function is tied to the real Module/Signal dispatch by exact "
             "correspondence on random histories; the property itself is checked on the real code for every module family, LinSolve matrix-class changes and FE networks "
             "(history vs fresh instance).",
        ref="§5 C03", technique="Lean 4 proof (refinement by induction over histories) + correspondence + fresh-instance oracle on the real code",
        note=NOTE_COMMON + "Per-module discharge of the HistFree contract for the library's caches is by the fresh-instance oracle (bounded, seeded), not by proof, except for the three generic instances; sparse EigenSolve (ARPACK) is partial."),
    "C16": dict(
        text="Lean theorems: AggActiveSet mask = value band minus floor-counted lowest/highest argsort positions (zero count removes nothing), AggScaling first/step/undamped-exact/recurrence, "
             "module response anatomy; over R: P-norm, KS and soft-max bounds incl. the sharp soft-max bound, and HasDerivAt of each aggregation = pairing with the coded derivative. "
             "Model (generic scalar; Rat for masks/scaling, Float for exp/log/pow) tied to aggregation.py by exact mask / tolerance value correspondence.",
        ref="§5 C16", technique="Lean 4 proof (order/field algebra, real analysis via Mathlib) + correspondence (exact masks, tolerance values)",
        note=NOTE_COMMON + "np.argsort enters as a contract (a permutation sorting ascending), checked on every case; libm vs numpy exp/log/pow to 1e-9."),
    "C18": dict(
        text="Lean theorems on a heap model of Signal/SignalSlice (Core/Signal.lean): reset clears / zeroes the same object in place, add_sensitivity copies on first add (fresh object, aliased by nothing) "
             "and adds in place afterwards, mutating the caller's array afterwards changes nothing held, slice add/set/reset touch only the slice's index set of the base's own array and create a zero "
             "base sensitivity when absent. Model tied to core_objects.py by exact correspondence after every operation of random op sequences incl. identity classes and alias probes; numpy-spec oracle.",
        ref="§5 C18", technique="Lean 4 proof (heap frame lemmas, induction over op lists) + exact correspondence + abstract-spec oracle",
        note=NOTE_COMMON + "PARTIAL: the slice theorems are proved for depth-1 slices of a base holding a whole array; the full refinement to the gather/scatter spec (signal_refines_spec) and nested-slice depth are covered only by correspondence and the numpy spec oracle."),
    "C20": dict(
        text="Lean theorems: base64 decode(encode bs) = bs for all byte lists (+length, injectivity); parse(render doc) = doc for the VTI grammar as written by write_to_vti (extent, origin, spacing, "
             "sections, array names, component counts, payload bytes; length prefix as coded); cell/point classification, 2-D padding (u,v,0), written-file round trip; ScalarToFile split/join round trip, "
             "one header + one row per call with the iteration number first. Byte-exact correspondence of the model with files written by the real code; independent decode oracle (xml/base64/struct).",
        ref="§5 C20", technique="Lean 4 proof (induction on byte chunks, parser/printer round trip) + byte-exact correspondence",
        note=NOTE_COMMON + "float64->float32 rounding and Python number formatting are external (bytes/strings are inputs of the model); OS/file system trusted."),
}

NOT_APPLICABLE = {
}

def main():
    props = [json.loads(l)["id"] for l in open(os.path.join(HERE, "properties.jsonl"))]
    checks = []
    for pid in props:
        if pid not in CHECKS:
            continue
        c = CHECKS[pid]
        checks.append({
            "property_id": pid,
            "quick_cmd": f"./check {pid} --tier quick",
            "thorough_cmd": f"./check {pid} --tier thorough",
            "evidence_file": f"evidence/{pid}.json",
            "replay_cmd_template": f"./check {pid} --replay {{path}}",
            "engine": "lean4-proof+correspondence",
            "level_claimed": {"category": c.get("category", "proof"), "text": c["text"], "design_ref": c["ref"]},
            "level_note": c["note"],
            "technique": c["technique"],
        })
    na = []
    for pid in props:
        if pid not in CHECKS:
            na.append({"property_id": pid, "reason": NOT_APPLICABLE.get(pid, "check not built yet in this tree (work in progress; see DESIGN.md §5 for the plan) — not claimed")})
    man = {
        "version": 1,
        "setup_cmd": "./setup.sh",
        "hooks": {
            "guard": "PYMOTO_VERIF",
            "enable": "no source hooks are needed: all observation points are public API or wrapped from outside by the harness; the checks export PYMOTO_VERIF=1 but /repo contains no guarded code",
            "baseline_off_cmd": "cd /repo && /venv/bin/python -m pytest -ra -q -p no:cacheprovider --timeout=900 --continue-on-collection-errors",
            "source_commits": [],
            "add_only": True,
        },
        "engines": [{
            "name": "lean4-proof+correspondence",
            "path": "check",
            "serves_properties": [c["property_id"] for c in checks],
            "kind_free_text": "Lean 4 theorems about hand-written executable models (lean/PymotoVerif) + differential correspondence of the model's executable definitions against the real pyMOTO code (harness/), + property oracle search on the real code when either breaks",
        }],
        "checks": checks,
        "notes": "See DESIGN.md. KNOWN_FINDINGS.txt lists open findings and fixed defects. seeded/ holds mutation patches used to test the checks.",
        "not_applicable": na,
    }
    with open(os.path.join(HERE, "MANIFEST.json"), "w") as f:
        json.dump(man, f, indent=1)
    print("checks:", [c["property_id"] for c in checks], "unclaimed:", [n["property_id"] for n in na])

if __name__ == "__main__":
    main()
