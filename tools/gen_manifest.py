#!/usr/bin/env python3
"""regenerates /verif/MANIFEST.json from the table below (kept in one place so it stays valid)"""
import json, os
HERE = os.path.dirname(os.path.dirname(os.path.abspath(__file__)))

NOTE_COMMON = ("Trusted: Lean 4.33 kernel + Mathlib v4.33 (axioms propext, Classical.choice, Quot.sound only; audited each run); "
               "the hand-written model is tied to /repo by the correspondence run (differential, bounded, seeded) of the same check; "
               "numpy/scipy semantics and IEEE rounding are modelled by exact arithmetic + tolerance. ")

CHECKS = {
    "C13": dict(
        text="Lean theorems for every grid size / element size / point: element and node numbering are bijections, "
             "the constructor's connectivity table lists the 2^dim corners in the documented order (distinct, in range), "
             "dof connectivity expands per dof, node positions, shape functions: partition of unity, Kronecker, non-negativity, "
             "derivative = gradient (affine identity), zero-sum and linear completeness. Model tied to domain.py by exact "
             "correspondence on exhaustive small grids + random large grids and on dyadic/float evaluation points.",
        ref="§5 C13", technique="Lean 4 proof (mixed-radix arithmetic, field identities) + exact model/implementation correspondence",
        note=NOTE_COMMON + "1-D domains are outside the property."),
    "C02": dict(
        text="Lean theorems about the executable dispatch model (Core/Network.lean: Module.response/sensitivity/reset, Network order, "
             "skip rule, add_sensitivity per input, slices, nesting): the model's reverse sweep IS the back-chain of the linearised "
             "modules (sensitivity_is_backChain); under single assignment every source entry receives exactly the transposed-Jacobian "
             "chain (backprop_is_transpose / total_derivative / paths_summed_once), unseeded branches contribute nothing, nested = flattened; "
             "each module kind's adjoint is its transposed Jacobian and the Jacobian is the exact derivative. Model tied to core_objects.py by "
             "exact correspondence on random DAG programs (int64) after every operation; oracle: exact dual-number derivative of the real network.",
        ref="§5 C02", technique="Lean 4 proof (induction over the module list, big-operator algebra) + exact correspondence + exact-derivative oracle",
        note=NOTE_COMMON + "The chain rule for the COMPOSED response is a theorem for the polynomial module kinds of the program model (response_taylor / response_dual / backprop_is_total_derivative_of_response: exact Taylor expansion and dual-number identity); for library modules it rests on C01 and is checked by the dual-number oracle on the real code on every run. Networks that are extended after nesting (late append) and list-valued slice indices are covered by dedicated correspondence streams."),
    "C03": dict(
        text="Generic Lean theorem over a caching-component model (Core/Component.lean): if under a cache invariant outputs and sensitivities are functions "
             "of current inputs/seeds only (HistFree), every protocol-respecting history over {set,response,seed,sensitivity,reset} refines the cache-free "
             "specification, hence the cycle after reset equals a fresh component (history_independent); reset leaves nothing; sensitivity without seed is a no-op. "
             "Instances: stateless, overwrite-cache, previous-solution-as-guess with unique solution. The step function is tied to the real Module/Signal dispatch by exact "
             "correspondence on random histories; the property itself is checked on the real code for every module family, LinSolve matrix-class changes and FE networks "
             "(history vs fresh instance).",
        ref="§5 C03", technique="Lean 4 proof (refinement by induction over histories) + correspondence + fresh-instance oracle on the real code",
        note=NOTE_COMMON + "Per-module discharge of the HistFree contract for the library's caches is by the fresh-instance oracle (bounded, seeded; matrix-class-changing histories for LinSolve/SystemOfEquations/StaticCondensation/Inverse/EigenSolve, nested and late-appended networks, several seeded passes per response), not by proof, except for the generic instances (stateless, overwrite cache, guess with unique solution, linear solve); sparse EigenSolve (ARPACK start vector) is partial: compared to solver tolerance."),
    "C16": dict(
        text="Lean theorems: AggActiveSet mask = value band minus floor-counted lowest/highest argsort positions (zero count removes nothing), AggScaling first/step/undamped-exact/recurrence, "
             "module response anatomy; over R: P-norm, KS and soft-max bounds incl. the sharp soft-max bound, and HasDerivAt of each aggregation = pairing with the coded derivative. "
             "Model (generic scalar; Rat for masks/scaling, Float for exp/log/pow) tied to aggregation.py by exact mask / tolerance value correspondence.",
        ref="§5 C16", technique="Lean 4 proof (order/field algebra, real analysis via Mathlib) + correspondence (exact masks, tolerance values)",
        note=NOTE_COMMON + "np.argsort enters as a contract (a permutation sorting ascending), checked on every case; libm vs numpy exp/log/pow to 1e-9."),
    "C18": dict(
        text="Lean theorems on a heap model of Signal/SignalSlice (Core/Signal.lean): reset clears / zeroes the same object in place, add_sensitivity copies on first add (fresh object, aliased by nothing) "
             "and adds in place afterwards, mutating the caller's array afterwards changes nothing held, slice add/set/reset touch only the slice's index set of the base's own array and create a zero "
             "base sensitivity when absent, at any nesting depth; the heap model refines the functional gather/scatter spec (signal_refines_spec). Model tied to core_objects.py by exact correspondence after every operation of random op sequences incl. identity classes and alias probes; numpy-spec oracle.",
        ref="§5 C18", technique="Lean 4 proof (heap frame lemmas, induction over op lists) + exact correspondence + abstract-spec oracle",
        note=NOTE_COMMON + "All slice theorems hold for chains of view slices of ANY nesting depth with any supported last index kind (composed index list T on the root array; numpy's index-set contract is itself proved: slice_idx_inside); value theorems (slice_get_reads_idx, slice_set_writes_idx, slice_add_accumulates_idx) and the refinement signal_refines_spec (any sequence of slice set/add/reset operations on any number of signals, also sharing arrays, equals the scatter/gather spec). Not claimed (outside the property's quantifier): chains whose INNER index is an integer array (numpy copies); arguments that alias the signal's own array get the frame theorem only."),
    "C20": dict(
        text="Lean theorems: base64 decode(encode bs) = bs for all byte lists (+length, injectivity); parse(render doc) = doc for the VTI grammar as written by write_to_vti (extent, origin, spacing, "
             "sections, array names, component counts, payload bytes; length prefix as coded); cell/point classification, 2-D padding (u,v,0), written-file round trip; ScalarToFile split/join round trip, "
             "one header + one row per call with the iteration number first. Byte-exact correspondence of the model with files written by the real code; independent decode oracle (xml/base64/struct).",
        ref="§5 C20", technique="Lean 4 proof (induction on byte chunks, parser/printer round trip) + byte-exact correspondence",
        note=NOTE_COMMON + "float64->float32 rounding and Python number formatting are external (bytes/strings are inputs of the model); OS/file system trusted."),
    "C05": dict(
        text="Lean theorems over any field with conjugation, any size, any block rhs, every trans in {N,T,H}: each direct solver's authored composition (Diagonal, QR, LU, Cholesky incl. LDL fall-back, "
             "LDL Hermitian and complex-symmetric with permutation indexing, SparseLU mode pass-through) solves op_trans(A) x = b under the explicit factorisation contract of the scipy routine; "
             "CG: r = b - A x after every iteration for every preconditioner/restart/rank pattern/initial guess, hence the tolerance exit bounds the true residual; auto_determine_solver returns a class containing A. "
             "Correspondence: factors read from the REAL solver objects are checked against the contract and fed to the exact model; CG iterates compared; oracle: residuals, shape, dtype on every real result.",
        ref="§5 C05", technique="Lean 4 proof (matrix algebra under factorisation contracts, loop invariant for CG) + correspondence on real factor objects + residual oracle",
        note=NOTE_COMMON + "PARTIAL: LAPACK/SuperLU factorisations are contracts checked numerically per case; CG convergence within maxit is a hypothesis (cg_correct_partial: IF the loop exits by tolerance the true residual is bounded); orth (orthogonality, span, totality) and the multigrid interpolation (partition of unity, reproduces linear fields) are proved. Optional back-ends (pardiso, cholmod, cvxopt, umfpack) are not installed and not covered."),
    "C06": dict(
        text="Lean state-machine proof for LDAWrapper over any field with conjugation: get_diagonal_indices is exactly 'decoupled in row AND column'; the storage/conjugation mode table solves the requested system; "
             "invariant (every stored pair is a solution pair of the current matrix, zero on the diagonal set; flags truthful) holds initially and is preserved by update and solve; for EVERY history and all modes, "
             "vector/block, each answer is exact when the inner solver ran and otherwise has exactly the residual that passed the tolerance test; update forgets earlier matrices; totality. "
             "Correspondence on histories against the real wrapper around a counting proxy (x, did_solve, inner-call counts, database sizes, flags, diagonal set), all 3x3 sparsity patterns in the thorough tier.",
        ref="§5 C06", technique="Lean 4 proof (invariant by induction over update/solve histories, inner solver as contract parameter) + history correspondence with call counting",
        note=NOTE_COMMON + "The orthogonality invariant (inv_orth_*) gives ldas_reuse (a rhs in the span of the stored rhs is answered without an inner solve) and ldas_norm_irrelevant (scaling stored pairs changes no answer); Props/C07LDAS.lean composes the wrapper with LinSolve. The floating-point tolerance test itself (|r| <= tol |b|) is modelled exactly (rational) and compared on dyadic data."),
    "C08": dict(
        text="Lean theorems for every grid, ndof, bc set, scaling vector: the assembled matrix equals the scaled element sum scattered through the connectivity, zero on bc rows/cols, bcdiagval on their diagonal, plus the constant; "
             "stiffness symmetric, u^T K u = sum x_e sum_g w eps^T D eps >= 0 (D PSD per plane mode), rigid-body motions in the null space at every integration point, mass total rho V sum x per direction, Poisson constants/linear energy. "
             "Element matrices evaluated exactly in Q(sqrt 3); correspondence with todense() of the real matrices and element matrices; dense re-assembly and physics oracles on the real code.",
        ref="§5 C08", technique="Lean 4 proof (sum re-indexing, field algebra, C13 shape-function theorems) + exact/tolerance correspondence",
        note=NOTE_COMMON + "Mass/Poisson physics theorems are for bc = none without constant; the np.max default of bcdiagval is model + correspondence only."),
    "C12": dict(
        text="Lean theorems (2-D and 3-D): B(p) u_e is the engineering strain of G for affine fields at every point; Strain normal components; shear AS CODED (2x engineering shear for voigt=True, with the "
             "counterexample theorem); Stress = D strain; energy identity for shear-free affine fields; ElementAverage = centroid value; NodalOperation = transpose of ElementOperation; thermal load self-equilibrated "
             "and = K u_free-expansion for every D. Correspondence with the real modules; oracles for all six sub-claims.",
        ref="§5 C12", technique="Lean 4 proof (field algebra on shape-function derivatives) + correspondence; one OPEN known finding",
        note=NOTE_COMMON + "OPEN FINDING strain-voigt-shear-doubled (KNOWN_FINDINGS.txt): the baseline test test_pure_shear pins the doubled shear, so it cannot be repaired; energy_identity is therefore _partial (shear-free fields)."),
    "C14": dict(
        text="Lean theorems: direction-string table (all 30 intended forms, all 585 short strings, general characterisation); for every grid/direction/nsampling the base layer is unchanged and every other element is "
             "smin(x_i, smax(supports in domain)); over R: overshoot <= sqrt(eps)/2, supported solid stays >= 1, unsupported material bound; mirror and axis-permutation equivariance (in-layer and cross-axis, every permutation) by induction over layers; "
             "sensitivity loop structure and the three scalar derivative atoms. Float model with bit-exact transport vs the real filter (direction attribute exact, outputs and sensitivities to tolerance); "
             "independent layer-by-layer oracle and symmetry pairs on the real code.",
        ref="§5 C14", technique="Lean 4 proof (decide tables, induction over layers, real analysis atoms) + Float-model correspondence + recomputation oracle",
        note=NOTE_COMMON + "overhang_sens_is_backprop: the coded reverse loop returns J^T seed of the layer recursion, and overhang_response_hasDerivAt makes J the genuine derivative over R (eps > 0); the older _partial statement is kept beside it. Equivariance holds for EVERY permutation of the domain axes with the direction mapped (overhang_relabel, overhang_axis_permutation, overhang_axis_swap_cross(_xy/_xz/_yz)), also at constructor level for axis directions (overhang_prepare_axis(_str), overhang_axis_permutation_prepared). libm vs numpy pow/log/sqrt to tolerance; non-axis direction vectors (accepted by the code because its alignment assertion is vacuous) are outside the property."),
    "C09": dict(
        text="Lean theorems (3-D statements, 2-D = nelz 0; arbitrary sizes, kernels, pad widths): closed forms of np.pad symmetric/edge/wrap; _process_padding is the per-axis extension; FilterConv output = sum w[a,b,c] x~[i+px-a, ...] "
             "with x~ the field extended by the selected rule (+overrides); constants and range preserved for non-negative sum-one kernels without constant padding (both filters); every radius kernel is non-negative, "
             "sums to one and is mirror-symmetric; volume preserved for all-symmetric padding + mirror-symmetric kernel for ANY pad width (extSym_covers_twice); DensityFilter = cone average over all elements; adjoint theorems for both filters. "
             "Exact (dyadic) and tolerance correspondence of padded index map, outputs and sensitivities; all 5^4 / 4^6 mode combinations in the thorough tier; brute-force oracles on the real code.",
        ref="§5 C09", technique="Lean 4 proof (integer index arithmetic with symbolic modulus, sum re-indexing) + exact correspondence + brute-force oracle; one OPEN known finding",
        note=NOTE_COMMON + "OPEN FINDING filterconv-wide-pad-mixed-modes: for pad > n with mixed modes on one axis the code pads the already padded array; the padded-convolution theorem carries the hypothesis axisClean that excludes exactly this class, and Lean proves the negation at the witness."),
    "C15": dict(
        text="Lean refinement proof: one simulation theorem per public DyadCarrier operation (construction incl. blocks/fac/zero-drop/dtype, +, -, unary -, +=, -=, scalar and matrix products from both sides, T, conj, real, imag, "
             "diagonal, getitem forms, setitem zeroing, contract in all batch/slice combinations, contract_multi, copy, todense) against dense = sum_k u_k v_k^T with result shape and representation invariant, and by induction over ANY finite program "
             "of these instructions the carrier registers refine the dense interpreter; operands other than in-place targets unchanged. Exact correspondence of whole programs (integer data) incl. per-vector dtypes and exception classes; numpy dense mirror oracle with aliasing checks.",
        ref="§5 C15", technique="Lean 4 proof (refinement / simulation per operation, induction over programs) + exact program correspondence + dense mirror oracle; one OPEN known finding",
        note=NOTE_COMMON + "OPEN FINDING dyad-dtype-lost-without-stored-complex-vector: the complex-flag claims carry the hypothesis Tight (a complex carrier stores a complex vector); Lean proves the negation of the unrestricted claim at the witness. 'Results share no storage' is checked by the harness only."),
    "C04": dict(
        text="Lean theorems: (abstract) the contribution Module.sensitivity adds is linear in the seeds and a second call without reset adds it again (n calls: n times), under 'no output is its own input'; "
             "(executable dispatch model Core/Network.lean) sensitivity() and reset() change no state, response() changes no sensitivity and no state outside its outputs, model-level linearity and doubling. "
             "Dispatch model tied to core_objects.py by exact correspondence on the 11-operation C04 sequence over random single modules; for every library module family the oracle checks seed linearity, "
             "doubling and untouched states/seeds on the real code.",
        ref="§5 C04", technique="Lean 4 proof (linearity of the reverse step; frame lemmas of the dispatch model) + exact correspondence + deep-snapshot oracle on every module family",
        note=NOTE_COMMON + "Linearity of each library module's hand-written _sensitivity is established per module by C01's adjoint theorems where they exist and otherwise by the oracle (bounded, seeded)."),
    "C01": dict(
        text="Lean adjoint / derivative theorems per module model (audited together): complex-number modules, Scaling, ConcatSignal (Props/C01); FilterConv and DensityFilter adjoints (C09); "
             "KS / P-norm / soft-max HasDerivAt = pairing with the coded derivative (C16); NodalOperation = transpose of ElementOperation (C12); overhang reverse sweep = J^T seed with J the derivative (C14); assembly, element/nodal operators (C01Assembly); EinSum / MathGeneral (C01Generic); implicit linear-algebra modules (C07, C11); "
             "dispatch = back step, coded adjoint of every polynomial kind = transposed Jacobian = exact derivative (C02). Correspondence: responses and sensitivities of the pointwise modules, both filters, "
             "aggregations and the overhang filter against the models. Property oracle on the real code for EVERY module family incl. LinSolve, Inverse, SystemOfEquations, StaticCondensation, EigenSolve, "
             "MathGeneral, EinSum, assembly with dense and dyadic seeds: Re<g,v> vs exact Jacobians / Richardson differences, partial seeds, class-preserving directions.",
        ref="§5 C01", technique="Lean 4 proof per module model (adjoint identities over fields, HasDerivAt over R) + correspondence + complete-Jacobian / Richardson oracle on all module families",
        note=NOTE_COMMON + "Borrowed theorems (audited with this check): C07 adjoints of LinSolve/Inverse/SystemOfEquations/StaticCondensation (linearised-constraint form + C07Deriv derivative form), C11 eigen adjoints (dense and sparse, linearised + derivative form), C01Assembly (assembly dense/dyadic seeds, element/nodal operators), C01Generic (EinSum incl. trace/ones/real-operand rule, MathGeneral under the pointwise-derivative contract for sympy), C14 overhang_sens_is_backprop, C09/C16/C12/C02 as listed. The implicit-function step is a theorem for LinSolve/Inverse/SystemOfEquations/StaticCondensation (Props/C07Deriv: derivative along every differentiable curve, R and C) and, given a differentiable curve of eigenpairs, for EigenSolve dense and sparse (Props/C11). AutoMod (jax) is not installed. OPEN FINDINGS: sparse EigenSolve sensitivities for complex Hermitian and for real non-symmetric matrices; EinSum with size-1 broadcast operands."),
    "C10": dict(
        text="Lean theorems over any ordered field: concat/split round trip, bound/move expansion (scalar, per-signal, per-variable), write-back to the right signals; both MMA versions reproduce value and gradient at the current design; "
             "asymptotes strictly enclose [alfa, beta] within bounds and move limit; one Newton pass of subsolv keeps x strictly inside (alfa, beta) and all multipliers/slacks positive (step-length rule + halving), hence every iterate is in bounds "
             "and within the move limit; exit residual bound (partial). Float model vs recorded mmasub/subsolv calls of the real optimiser (arguments, returned solution, iterates at every callback); per-call inequality and KKT oracles.",
        ref="§5 C10", technique="Lean 4 proof (field algebra, interior-point invariants) + Float-model correspondence on recorded calls + per-call oracle; one OPEN known finding",
        note=NOTE_COMMON + "PARTIAL: convergence of MMA on convex problems and 'constraints end up satisfied' are asymptotic claims that are observed, not proved; subsolv_exit_kkt_partial / subsolv_exit_kkt_blocks (stationarity and constraint rows of the sub-problem KKT system <= 9*epsimin, complementarity products in (0, 19*epsimin] at the returned point) assume the Newton caps are not hit; m = 0 is outside the property. OPEN FINDING mma-subsolv-nan-wide-ranges: for variable ranges beyond ~1e4 the floating-point Newton iteration of the real sub-problem solver rounds x onto its bound and returns NaN (the interior invariant is a theorem of exact arithmetic); that input class is kept out of the correspondence stream."),
    "C17": dict(
        text="Lean theorems over any ordered field: the clipped OC update stays in [xmin, xmax] and moves at most `move`; by induction over ALL iterations of minimize_oc every design at every response and the final states are in bounds and chained by the move limit; "
             "volume is non-increasing and (sqrt contract) explicitly Lipschitz in the multiplier, so the returned design has volume within C*l1l2tol of the target when it is reachable; the bisection keeps vol(l1) > maxvol >= vol(l2) and exits with l2 - l1 <= tolerance; write-back slices concatenate to the design; the bisection terminates after log2((l2-l1)/tol) passes; the update of the separable objective is independent of the current design and optimal in the move-limited box when the volume is met. Float model vs the real loop at every network response; "
             "oracle: bounds, move, volume tolerance bound, convergence to x* ~ sqrt(c).",
        ref="§5 C17", technique="Lean 4 proof (clip lemmas, induction over iterations and bisection passes, termination by halving, term-wise Lagrangian minimum for the separable objective) + Float-model correspondence + oracle",
        note=NOTE_COMMON + "Volume tolerance is proved under the sqrt contract (SqrtOK, satisfied by Real.sqrt): explicit Lipschitz constant of the volume in the multiplier (oc_volume_lipschitz), |sum(xnew) - maxvol| <= A*l1l2tol/(2*l1*sqrt(l1)) on exit (oc_volume_tolerance) and an a-priori C*l1l2tol bound whenever the target is reachable (oc_volume_tolerance_reachable, oc_iteration_volume). Termination of the bisection is a theorem (oc_bisection_terminates, oc_iteration_terminates: k passes once l2init-l1init <= l1l2tol*2^k). For the separable objective sum c_i/x_i the un-clipped update is sqrt(c_i/lambda) whatever the current design is (oc_separable_update) and the update whose volume meets the target minimises the objective over the move-limited box with at most that volume (oc_separable_optimal): the analytic optimum in one step where the move limits do not bind, and a fixed point of the update (oc_separable_fixed_point). PARTIAL: convergence over several iterations with binding move limits (and the influence of the bisection tolerance on it) is observed only."),
    "C07": dict(
        text="Lean theorems for every size, every number of rhs columns, any commutative ring and any exact inner solver (contract A*solve B = B, A^T*solveT B = B, satisfiable for every non-singular matrix): "
             "LinSolve returns X with A X = B (and rejects real-sparse + complex rhs), Inverse, SystemOfEquations (A x = b, x[p] = xp, b[f] = bf for every partition), StaticCondensation = Schur complement and reproduces the main-dof response; "
             "adjoint theorems in linearised-constraint form for LinSolve (+ exact finite identity), Inverse, SystemOfEquations (both seeds), StaticCondensation. Exact Q(i) model vs the real modules (outputs and sensitivities) over matrix classes, "
             "storage formats, solver overrides, all partitions of small index sets; defining-equation oracle on every real output.",
        ref="§5 C07", technique="Lean 4 proof (matrix algebra under the inner-solver contract) + exact-model correspondence + defining-equation oracle",
        note=NOTE_COMMON + "Class detection, auto_determine_solver, LDAWrapper and the initial guess are abstracted into the Solver contract here (they are C05/C06); Props/C07Deriv.lean adds the implicit-function step: along every differentiable curve of inputs with A(t) non-singular the outputs are differentiable and the coded sensitivities pair to the derivative (R and C, real-dtype inputs perturbed in real directions)."),
    "C11": dict(
        text="Lean theorems under the eigen-solver contract (the library returns pairs with A q = lambda B q): scaling and permuting keep eigenpairs, q^T B q = 1 after normalisation, output order = sorting function's order, mean entry >= 0 "
             "(ordered field), dense path complete, the operator handed to ARPACK is (A - sigma B)^-1 with the coded defaults. Sensitivities: Lee's bordered adjoint per mode and for the whole module (dense path, general matrices) and the coded sparse "
             "eigenvalue / eigenvector sensitivities (symmetric pencils; independent of WHICH solution the singular solve returns) equal the pairing with the tangent of the eigenpair (linearised form, any field) and, over R and C, the derivative "
             "along every differentiable curve of eigenpairs (eig_dense_sens_is_derivative, eig_sparse_sens_is_derivative); tangent exists and is unique at a simple eigenvalue. "
             "The harness captures the RAW library eigenpairs (wrapping scipy eigh/eig/eigsh/eigs), feeds them to the model and compares the module's outputs and sensitivities (dense and sparse, incl. a model solver that returns a different kernel component); "
             "residual / normalisation / order / sign / closest-to-sigma / adjoint-identity oracles.",
        ref="§5 C11", technique="Lean 4 proof of the authored post-processing and sensitivities under an explicit eigen-solver contract + correspondence on captured raw eigenpairs + residual and adjoint-identity oracles",
        note=NOTE_COMMON + "PARTIAL by nature: that LAPACK/ARPACK return genuine eigenpairs closest to the shift is an external contract checked numerically; that a simple eigenvalue has a differentiable curve of eigenpairs (implicit-function theorem proper) is a hypothesis of the ..._is_derivative theorems (eig_tangent_exists_unique pins the derivative down). Sparse sensitivities are proved for transpose-symmetric pencils only: for complex Hermitian and real non-symmetric sparse matrices the code is wrong (OPEN FINDINGS under C01)."),
    "C19": dict(
        text="Lean theorems on a model of finite_difference over the C02 program model (any scalar incl. complex pairs): every entry not written by the block is restored exactly, no sensitivity is left on any examined signal, "
             "each reported pair comes from one perturbation, the analytical value is the back-propagated sensitivity entry for the seed used, calls only for non-skipped entries with the configured step, pre/slice split sound; "
             "numerical value = true derivative + h*c for quadratic expansions (exact for affine modules) and within M*h/2 of it for any C^2 response over the reals (|second derivative| <= M), hence wrong sensitivities (off by more than M*h/2) give non-matching and right ones matching pairs. Exact correspondence (dyadic data, dx = 2^-k) of the test_fn tuples "
             "and all signal states/sensitivities, incl. sparse-matrix inputs and outputs, slices, complex inputs; independent rational oracle for analytical and numerical values.",
        ref="§5 C19", technique="Lean 4 proof (frame/loop lemmas over the network model) + exact correspondence + rational-arithmetic oracle; two OPEN known findings",
        note=NOTE_COMMON + "The O(dx) claim is proved over the reals for every twice-differentiable seeded response (fd_numerical_smooth: |fd - true| <= M*dx/2, Taylor with Lagrange remainder), with the acceptance/detection corollaries. PARTIAL: 'exactly one call per non-skipped entry' is oracle-checked; independence of blks_pre from the perturbed inputs is not proved. OPEN FINDINGS: default inputs containing a slice of an internal signal; fromsig inside a nested network."),
}

NOT_APPLICABLE = {
}

def main():
    props = [json.loads(l)["id"] for l in open(os.path.join(HERE, "properties.jsonl"))]
    checks = []
    for pid in props:
        if pid not in CHECKS:
            continue
        c = CHECKS[pid]
        checks.append({
            "property_id": pid,
            "quick_cmd": f"./check {pid} --tier quick",
            "thorough_cmd": f"./check {pid} --tier thorough",
            "evidence_file": f"evidence/{pid}.json",
            "replay_cmd_template": f"./check {pid} --replay {{path}}",
            "engine": "lean4-proof+correspondence",
            "level_claimed": {"category": c.get("category", "proof"), "text": c["text"], "design_ref": c["ref"]},
            "level_note": c["note"],
            "technique": c["technique"],
        })
    na = []
    for pid in props:
        if pid not in CHECKS:
            na.append({"property_id": pid, "reason": NOT_APPLICABLE.get(pid, "check not built yet in this tree (work in progress; see DESIGN.md §5 for the plan) — not claimed")})
    man = {
        "version": 1,
        "setup_cmd": "./setup.sh",
        "hooks": {
            "guard": "PYMOTO_VERIF",
            "enable": "no source hooks are needed: all observation points are public API or wrapped from outside by the harness; the checks export PYMOTO_VERIF=1 but /repo contains no guarded code",
            "baseline_off_cmd": "cd /repo && /venv/bin/python -m pytest -ra -q -p no:cacheprovider --timeout=900 --continue-on-collection-errors",
            "source_commits": [],
            "add_only": True,
        },
        "engines": [{
            "name": "lean4-proof+correspondence",
            "path": "check",
            "serves_properties": [c["property_id"] for c in checks],
            "kind_free_text": "Lean 4 theorems about hand-written executable models (lean/PymotoVerif) + differential correspondence of the model's executable definitions against the real pyMOTO code (harness/), + property oracle search on the real code when either breaks",
        }],
        "checks": checks,
        "notes": "See DESIGN.md. KNOWN_FINDINGS.txt lists open findings and fixed defects. seeded/ holds mutation patches used to test the checks.",
        "not_applicable": na,
    }
    with open(os.path.join(HERE, "MANIFEST.json"), "w") as f:
        json.dump(man, f, indent=1)
    print("checks:", [c["property_id"] for c in checks], "unclaimed:", [n["property_id"] for n in na])

if __name__ == "__main__":
    main()
