#!/usr/bin/env python3
"""regenerates /verif/MANIFEST.json from the table below (kept in one place so it stays valid)"""
import json, os
HERE = os.path.dirname(os.path.dirname(os.path.abspath(__file__)))

NOTE_COMMON = ("Trusted: Lean 4.33 kernel + Mathlib v4.33 (axioms propext, Classical.choice, Quot.sound only; audited each run); "
               "the hand-written model is tied to /repo by the correspondence run (differential, bounded, seeded) of the same check; "
               "numpy/scipy semantics and IEEE rounding are modelled by exact arithmetic + tolerance. ")

CHECKS = {
    "C13": dict(
        text="Lean theorems for every grid size / element size / point: element and node numbering are bijections, "
             "the constructor's connectivity table lists the 2^dim corners in the documented order (distinct, in range), "
             "dof connectivity expands per dof, node positions, shape functions: partition of unity, Kronecker, non-negativity, "
             "derivative = gradient (affine identity), zero-sum and linear completeness. Model tied to domain.py by exact "
             "correspondence on exhaustive small grids + random large grids and on dyadic/float evaluation points.",
        ref="§5 C13", technique="Lean 4 proof (mixed-radix arithmetic, field identities) + exact model/implementation correspondence",
        note=NOTE_COMMON + "1-D domains are outside the property."),
}

NOT_APPLICABLE = {
}

def main():
    props = [json.loads(l)["id"] for l in open(os.path.join(HERE, "properties.jsonl"))]
    checks = []
    for pid in props:
        if pid not in CHECKS:
            continue
        c = CHECKS[pid]
        checks.append({
            "property_id": pid,
            "quick_cmd": f"./check {pid} --tier quick",
            "thorough_cmd": f"./check {pid} --tier thorough",
            "evidence_file": f"evidence/{pid}.json",
            "replay_cmd_template": f"./check {pid} --replay {{path}}",
            "engine": "lean4-proof+correspondence",
            "level_claimed": {"category": c.get("category", "proof"), "text": c["text"], "design_ref": c["ref"]},
            "level_note": c["note"],
            "technique": c["technique"],
        })
    na = []
    for pid in props:
        if pid not in CHECKS:
            na.append({"property_id": pid, "reason": NOT_APPLICABLE.get(pid, "check not built yet in this tree (work in progress; see DESIGN.md §5 for the plan) — not claimed")})
    man = {
        "version": 1,
        "setup_cmd": "./setup.sh",
        "hooks": {
            "guard": "PYMOTO_VERIF",
            "enable": "no source hooks are needed: all observation points are public API or wrapped from outside by the harness; the checks export PYMOTO_VERIF=1 but /repo contains no guarded code",
            "baseline_off_cmd": "cd /repo && /venv/bin/python -m pytest -ra -q -p no:cacheprovider --timeout=900 --continue-on-collection-errors",
            "source_commits": [],
            "add_only": True,
        },
        "engines": [{
            "name": "lean4-proof+correspondence",
            "path": "check",
            "serves_properties": [c["property_id"] for c in checks],
            "kind_free_text": "Lean 4 theorems about hand-written executable models (lean/PymotoVerif) + differential correspondence of the model's executable definitions against the real pyMOTO code (harness/), + property oracle search on the real code when either breaks",
        }],
        "checks": checks,
        "notes": "See DESIGN.md. KNOWN_FINDINGS.txt lists open findings and fixed defects. seeded/ holds mutation patches used to test the checks.",
        "not_applicable": na,
    }
    with open(os.path.join(HERE, "MANIFEST.json"), "w") as f:
        json.dump(man, f, indent=1)
    print("checks:", [c["property_id"] for c in checks], "unclaimed:", [n["property_id"] for n in na])

if __name__ == "__main__":
    main()
