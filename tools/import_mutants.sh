#!/bin/bash
# tools/import_mutants.sh Cxx : copy /tmp/mut_Cxx_out/{patchK.diff,demoK.py,notesK.md} into seeded/Cxx-K/
P=$1
for k in 1 2; do
  [ -f /tmp/mut_${P}_out/patch$k.diff ] || continue
  mkdir -p /verif/seeded/$P-$k
  cp /tmp/mut_${P}_out/patch$k.diff /verif/seeded/$P-$k/patch.diff
  cp /tmp/mut_${P}_out/demo$k.py /verif/seeded/$P-$k/demo.py
  python3 - <<PY
import json, os
n = "/tmp/mut_${P}_out/notes$k.md"
json.dump({"id": "$P-$k", "property": "$P", "needs": open(n).read() if os.path.exists(n) else ""}, open("/verif/seeded/$P-$k/meta.json", "w"), indent=1)
PY
done
