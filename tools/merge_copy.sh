#!/bin/bash
# tools/merge_copy.sh /tmp/w_Cxx 'regex' : copy the files of a builder's private copy whose path matches the regex
# (e.g. 'C14|c14|Overhang') into /verif. Shared registration files are never copied.
SRC="$1"; PAT="$2"; DST=/verif
[ -z "$PAT" ] && { echo "usage: merge_copy.sh SRC REGEX"; exit 1; }
cd "$SRC" || exit 1
find lean/PymotoVerif harness/props corpus -type f ! -name '*.pyc' 2>/dev/null | grep -E "$PAT" | grep -v "Drv/All.lean" | while read f; do
  if ! cmp -s "$f" "$DST/$f"; then mkdir -p "$DST/$(dirname "$f")"; cp "$f" "$DST/$f"; echo "$f"; fi
done
diff "$DST/KNOWN_FINDINGS.txt" KNOWN_FINDINGS.txt | grep '^>'
