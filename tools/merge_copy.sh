#!/bin/bash
# tools/merge_copy.sh /tmp/w_Cxx : copy files that a builder created/changed in its private copy into /verif,
# except the shared registration files (Drv/All.lean, PymotoVerif.lean), evidence, replays, MANIFEST.
SRC="$1"; DST=/verif
cd "$SRC" || exit 1
rsync -rc --out-format='%n' --exclude='.lake' --exclude='__pycache__' --exclude='.git' --exclude='.deps' \
  --exclude='evidence' --exclude='replays' --exclude='MANIFEST.json' --exclude='lean/PymotoVerif/Drv/All.lean' \
  --exclude='lean/PymotoVerif.lean' --exclude='harness/common.py' --exclude='harness/main.py' --exclude='harness/zoo.py' \
  --exclude='harness/props/c03.py' --exclude='harness/props/c13.py' --exclude='KNOWN_FINDINGS.txt' --exclude='tools' \
  --exclude='DESIGN.md' --exclude='lean/PymotoVerif/Props/C03.lean' --exclude='lean/PymotoVerif/Drv/C03.lean' \
  --exclude='lean/PymotoVerif/Core/Component.lean' --exclude='corpus/defects/c0[1347]_*' --exclude='*.pyc' \
  ./ "$DST"/ | grep -v '/$'
echo "--- shared files diff (apply by hand):"
diff <(grep -v "C03\|^$" "$DST/lean/PymotoVerif/Drv/All.lean") <(grep -v "^$" lean/PymotoVerif/Drv/All.lean) | grep '^[<>]'
diff "$DST/KNOWN_FINDINGS.txt" KNOWN_FINDINGS.txt | grep '^>' 
diff "$DST/harness/common.py" harness/common.py > /dev/null || echo "common.py differs!"
diff "$DST/harness/main.py" harness/main.py > /dev/null || echo "main.py differs!"
