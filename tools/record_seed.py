#!/usr/bin/env python3
"""tools/record_seed.py <id> <seed> <last line of eval_seeded>: stores the verdict in seeded/<id>/seeds.json"""
import json, os, sys
i, sd, out = sys.argv[1:4]
p = f"/verif/seeded/{i}/seeds.json"
d = json.load(open(p)) if os.path.exists(p) else {}
d[sd] = ("caught: failing input" if ("rc 1" in out and "no-failing-input-found" not in out) else
         "caught: no-failing-input-found" if "rc 1" in out else "MISSED")
json.dump(d, open(p, "w"), indent=1, sort_keys=True)
