#!/usr/bin/env python3
"""prints the markdown table of seeded changes and their detection status (for DESIGN.md §9.5)"""
import json, glob, os
rows = []
for f in sorted(glob.glob("/verif/seeded/*/meta.json")):
    m = json.load(open(f))
    det = m.get("detection", {})
    caught = [p for p, d in det.items() if d.get("rc") == 1]
    kinds = []
    for p in caught:
        w = det[p].get("witness") or {}
        kinds.append(f"{p} ({'failing input' if (w.get('kind') == 'failing-input') else 'no-failing-input-found'})")
    first = (m.get("needs") or "").strip().split("\n")
    summary = next((l.strip("# *-").strip() for l in first if len(l.strip()) > 20), "")[:140]
    sp = os.path.join(os.path.dirname(f), "seeds.json")
    sd = json.load(open(sp)) if os.path.exists(sp) else {}
    seeds = " ".join(f"{k}:{'F' if 'failing input' in v else 'N' if 'no-failing' in v else 'MISS'}" for k, v in sorted(sd.items())) or "-"
    rows.append(f"| {m['id']} | {m['property']} | {summary} | {'yes' if m.get('confirmed') else 'pending'} | {', '.join(kinds) if kinds else 'MISSED'} | {seeds} |")
print("| id | property | change | confirmed | caught by (last run) | seeds 0/1/2 (F = failing input, N = no-failing-input-found) |\n|---|---|---|---|---|---|")
print("\n".join(rows))
import sys
if "--write" in sys.argv:
    p = "/verif/DESIGN.md"
    s = open(p).read()
    a, b = s.index("<!-- SEEDED-TABLE-START -->"), s.index("<!-- SEEDED-TABLE-END -->")
    tab = ("| id | property | change | confirmed | caught by (last run) | seeds 0/1/2 (F = failing input, N = no-failing-input-found) |\n"
           "|---|---|---|---|---|---|\n" + "\n".join(rows) + "\n")
    open(p, "w").write(s[:a] + "<!-- SEEDED-TABLE-START -->\n" + tab + s[b:])
