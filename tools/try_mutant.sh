#!/bin/bash
# tools/try_mutant.sh <Cxx> <patch.diff> <demo.py> [tier]  : apply patch to /repo, run demo + check, revert
P=$1; PATCH=$2; DEMO=$3; TIER=${4:-quick}
cd /repo || exit 1
git status --short | grep -q . && { echo "/repo not clean"; exit 1; }
echo "== demo on unchanged tree:"; PYTHONPATH=/repo OMP_NUM_THREADS=1 timeout 600 /venv/bin/python $DEMO > /tmp/demo_clean.log 2>&1; echo "rc=$?"
git apply $PATCH || { echo "patch does not apply"; exit 1; }
echo "== demo on changed tree:"; PYTHONPATH=/repo OMP_NUM_THREADS=1 timeout 600 /venv/bin/python $DEMO > /tmp/demo_mut.log 2>&1; echo "rc=$?"; tail -3 /tmp/demo_mut.log | cut -c1-200
echo "== check $P ($TIER) on changed tree:"
cd /verif && VERIF_SEED=${VERIF_SEED:-0} ./check $P --tier $TIER 2>&1 | grep -E "VIOLATION|KNOWN|rc=|correspondence:|lean obl" | cut -c1-220
cd /repo && git checkout -- . && git status --short | head -2
