#!/usr/bin/env python3
"""validate MANIFEST.json and evidence/*.json against the schemas (run with python3-vt: needs jsonschema)"""
import json, sys, glob, os
import jsonschema
HERE = os.path.dirname(os.path.dirname(os.path.abspath(__file__)))
ok = True
def v(path, schema):
    global ok
    try:
        jsonschema.validate(json.load(open(path)), json.load(open(schema)))
        print("valid  ", os.path.relpath(path, HERE))
    except Exception as e:
        ok = False
        print("INVALID", path, str(e)[:300])
v(os.path.join(HERE, "MANIFEST.json"), "/root/.vp/MANIFEST.schema.json")
for f in sorted(glob.glob(os.path.join(HERE, "evidence", "*.json"))):
    v(f, "/root/.vp/EVIDENCE.schema.json")
sys.exit(0 if ok else 1)
